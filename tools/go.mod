module veriftools

go 1.23
