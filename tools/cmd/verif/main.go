// verif: driver of the deterministic-simulation checks (DESIGN.md 3).
//
//	verif check <Cxx> [--tier quick|thorough]   build from the repo's working tree, run the property's scenario families
//	verif replay <file>                         re-execute a replay file in a fresh process
//	verif selftest determinism [props...]       same seed, separate processes, different machine load: identical event hashes
//
// Exit status: 0 property held on everything explored (known findings are
// printed as KNOWN-FINDING lines), 1 violation (a VIOLATION line names the
// replay file), 2 build failure / simulator stall / replay divergence.
package main

import (
	"bufio"
	"bytes"
	"encoding/json"
	"flag"
	"fmt"
	"os"
	"os/exec"
	"path/filepath"
	"sort"
	"strconv"
	"strings"
	"sync"
	"time"

	"veriftools/instrument"
)

const verifDir = "/verif"

type runSpec = map[string]any

type batchSummary struct {
	Summary      bool              `json:"summary"`
	Worker       int               `json:"worker"`
	Next         int               `json:"next"`
	Runs         int               `json:"runs"`
	PerFamily    map[string]int    `json:"per_family"`
	Steps        int64             `json:"steps"`
	VirtMS       int64             `json:"virt_ms"`
	Faults       map[string]int    `json:"faults"`
	Probes       map[string]int    `json:"probes"`
	Policies     map[string]int    `json:"policies"`
	Outcomes     map[string]int    `json:"outcomes"`
	KnownHits    map[string]int    `json:"known_hits"`
	ILHashes     []string          `json:"il_hashes"`
	SitePairs    []string          `json:"site_pairs"`
	Samples      []json.RawMessage `json:"samples"`
	ReplayUnsafe int               `json:"replay_unsafe"`
	WallMS       int64             `json:"wall_ms"`
}

type runResult struct {
	Spec      json.RawMessage `json:"spec"`
	Outcome   string          `json:"outcome"`
	End       string          `json:"end"`
	Oracle    string          `json:"oracle"`
	Signature string          `json:"signature"`
	Message   string          `json:"message"`
	Steps     int             `json:"steps"`
	Hash      string          `json:"hash"`
	ILHash    string          `json:"il_hash"`
	VirtMS    int64           `json:"virt_ms"`
	Trace     json.RawMessage `json:"trace,omitempty"`
	Log       []string        `json:"log,omitempty"`
}

type specHead struct {
	Family string `json:"family"`
	Idx    int    `json:"idx"`
}

type planEntry struct {
	Family     string `json:"family"`
	Count      int    `json:"count"`
	Enumerated bool   `json:"enumerated"`
}

type knownFinding struct {
	Property    string `json:"property"`
	Signature   string `json:"signature"`
	Status      string `json:"status"` // open | fixed
	Commit      string `json:"commit,omitempty"`
	Description string `json:"description"`
}

func die(code int, format string, a ...any) {
	fmt.Fprintf(os.Stderr, format+"\n", a...)
	os.Exit(code)
}

func envDefault(k, d string) string {
	if v := os.Getenv(k); v != "" {
		return v
	}
	return d
}

func goEnv() []string {
	env := os.Environ()
	env = append(env, "GOFLAGS=-mod=mod", "GOPROXY=off", "GOSUMDB=off", "GOTOOLCHAIN=local")
	return env
}

const goBin = "/opt/veriftools/go1.26.8/bin/go"

// build instruments repo and compiles the worker binary; returns its path.
func build(repo, bdir string) string {
	if err := os.MkdirAll(bdir, 0o755); err != nil {
		die(2, "build dir: %v", err)
	}
	// VERIF_SRC (debugging aid, not used by any registered command): a frozen copy
	// of /verif holding sim/ and overlay/, so that the live tree can be edited
	// while long batches run
	srcDir := envDefault("VERIF_SRC", verifDir)
	st, err := instrument.Build(repo, bdir, filepath.Join(srcDir, "overlay"))
	if err != nil {
		// does the plain tree parse at all?
		die(2, "BUILD-ERROR instrumenter: %v", err)
	}
	_ = st
	gomod := fmt.Sprintf("module github.com/cbeuw/Cloak/verifsim\n\ngo 1.26\n\nrequire github.com/cbeuw/Cloak v0.0.0\n\nrequire github.com/anishathalye/porcupine v1.3.0\n\nreplace github.com/cbeuw/Cloak => %s\n", repo)
	os.WriteFile(filepath.Join(bdir, "go.mod"), []byte(gomod), 0o644)
	sum, _ := os.ReadFile(filepath.Join(repo, "go.sum"))
	extra, _ := os.ReadFile(filepath.Join(srcDir, "sim", "go.sum.extra"))
	os.WriteFile(filepath.Join(bdir, "go.sum"), append(sum, extra...), 0o644)
	bin := filepath.Join(bdir, "sim.test")
	cmd := exec.Command(goBin, "test", "-c", "-vet=off", "-tags", "verif", "-modfile", filepath.Join(bdir, "go.mod"),
		"-overlay", filepath.Join(bdir, "overlay.json"), "-o", bin, ".")
	cmd.Dir = filepath.Join(srcDir, "sim")
	cmd.Env = goEnv()
	out, err := cmd.CombinedOutput()
	if err != nil {
		fmt.Fprintf(os.Stderr, "%s\n", out)
		// distinguish "the tree itself does not compile" from an instrumenter problem
		c2 := exec.Command(goBin, "build", "./...")
		c2.Dir = repo
		c2.Env = goEnv()
		if o2, e2 := c2.CombinedOutput(); e2 != nil {
			die(2, "BUILD-ERROR the repository does not compile:\n%s", o2)
		}
		die(2, "BUILD-ERROR instrumented build failed while the plain tree compiles (instrumenter/harness problem, not a verdict)")
	}
	return bin
}

var jobSeq int
var jobMu sync.Mutex

// runWorker executes one worker process on a job and returns its output lines.
func runWorker(bin, bdir string, job map[string]any, timeout time.Duration) ([][]byte, error) {
	jobMu.Lock()
	jobSeq++
	id := jobSeq
	jobMu.Unlock()
	jf := filepath.Join(bdir, fmt.Sprintf("job%d.json", id))
	of := filepath.Join(bdir, fmt.Sprintf("out%d.jsonl", id))
	job["out"] = of
	b, _ := json.Marshal(job)
	os.WriteFile(jf, b, 0o644)
	defer os.Remove(jf)
	defer os.Remove(of)
	sh := fmt.Sprintf("ulimit -v 16000000; exec %s -test.run '^TestWorker$' -test.timeout 0", bin)
	cmd := exec.Command("bash", "-c", sh)
	cmd.Dir = bdir
	cmd.Env = append(os.Environ(), "VERIF_JOB="+jf, "GOMAXPROCS=1", "GODEBUG=asyncpreemptoff=1", "GOMEMLIMIT=4GiB", "TMPDIR="+bdir)
	var stderr bytes.Buffer
	cmd.Stdout = &stderr
	cmd.Stderr = &stderr
	if err := cmd.Start(); err != nil {
		return nil, err
	}
	done := make(chan error, 1)
	go func() { done <- cmd.Wait() }()
	var werr error
	select {
	case werr = <-done:
	case <-time.After(timeout):
		cmd.Process.Signal(os.Interrupt)
		time.Sleep(200 * time.Millisecond)
		cmd.Process.Kill()
		<-done
		return nil, fmt.Errorf("worker exceeded its watchdog of %v (simulator stall)\n%s", timeout, tail(stderr.String(), 4000))
	}
	data, _ := os.ReadFile(of)
	var lines [][]byte
	sc := bufio.NewScanner(bytes.NewReader(data))
	sc.Buffer(make([]byte, 1<<20), 1<<30)
	for sc.Scan() {
		lines = append(lines, append([]byte(nil), sc.Bytes()...))
	}
	if werr != nil && len(lines) == 0 {
		return nil, fmt.Errorf("worker failed: %v\n%s", werr, tail(stderr.String(), 6000))
	}
	if werr != nil {
		// worker died after writing something: report
		return lines, fmt.Errorf("worker failed: %v\n%s", werr, tail(stderr.String(), 6000))
	}
	return lines, nil
}

func tail(s string, n int) string {
	if len(s) > n {
		return "..." + s[len(s)-n:]
	}
	return s
}

func loadKnown() []knownFinding {
	var ks []knownFinding
	b, err := os.ReadFile(filepath.Join(verifDir, "known_findings.json"))
	if err != nil {
		return nil
	}
	if err := json.Unmarshal(b, &ks); err != nil {
		die(2, "known_findings.json: %v", err)
	}
	return ks
}

func manifestLevel(prop string) string {
	b, err := os.ReadFile(filepath.Join(verifDir, "MANIFEST.json"))
	if err != nil {
		return "exploration"
	}
	var m struct {
		Checks []struct {
			PropertyID string `json:"property_id"`
			Level      struct {
				Category string `json:"category"`
			} `json:"level_claimed"`
		} `json:"checks"`
	}
	json.Unmarshal(b, &m)
	for _, c := range m.Checks {
		if c.PropertyID == prop && c.Level.Category != "" {
			return c.Level.Category
		}
	}
	return "exploration"
}

func main() {
	if len(os.Args) < 2 {
		die(2, "usage: verif check|replay|selftest ...")
	}
	switch os.Args[1] {
	case "check":
		os.Exit(cmdCheck(os.Args[2:]))
	case "replay":
		os.Exit(cmdReplay(os.Args[2:]))
	case "selftest":
		os.Exit(cmdSelftest(os.Args[2:]))
	default:
		die(2, "unknown command %q", os.Args[1])
	}
}

func cmdCheck(args []string) int {
	fs := flag.NewFlagSet("check", flag.ExitOnError)
	tier := fs.String("tier", envDefault("VERIF_TIER", "quick"), "quick|thorough")
	workers := fs.Int("workers", atoi(envDefault("VERIF_WORKERS", "16")), "worker processes")
	budget := fs.Int("budget", atoi(envDefault("VERIF_BUDGET_S", "0")), "wall-clock budget for the batch in seconds (0: tier default)")
	scale := fs.Float64("scale", atof(envDefault("VERIF_SCALE", "1")), "multiplier for sampled run counts")
	noEvidence := fs.Bool("no-evidence", false, "do not write the evidence file (used by selftests)")
	var prop string
	if len(args) > 0 && !strings.HasPrefix(args[0], "-") {
		prop = args[0]
		args = args[1:]
	}
	fs.Parse(args)
	if prop == "" {
		die(2, "usage: verif check <Cxx> [--tier quick|thorough]")
	}
	if *tier != "quick" && *tier != "thorough" {
		die(2, "bad tier %q", *tier)
	}
	seed, err := strconv.ParseUint(envDefault("VERIF_SEED", "20260923"), 10, 64)
	if err != nil {
		die(2, "VERIF_SEED: %v", err)
	}
	repo := envDefault("VERIF_REPO", "/repo")
	if *budget == 0 {
		*budget = map[string]int{"quick": 100, "thorough": 1500}[*tier]
	}
	fmt.Printf("verif check %s tier=%s VERIF_SEED=%d repo=%s workers=%d budget=%ds\n", prop, *tier, seed, repo, *workers, *budget)
	t0 := time.Now()
	bdir := filepath.Join(verifDir, ".build", fmt.Sprintf("%s-%d", prop, os.Getpid()))
	defer os.RemoveAll(bdir)
	bin := build(repo, bdir)
	buildS := time.Since(t0).Seconds()

	known := loadKnown()
	var openSigs []string
	for _, k := range known {
		if k.Property == prop && k.Status == "open" {
			openSigs = append(openSigs, k.Signature)
		}
	}

	// plan
	lines, err := runWorker(bin, bdir, map[string]any{"mode": "plan", "property": prop, "tier": *tier, "scale": *scale}, 2*time.Minute)
	if err != nil || len(lines) == 0 {
		die(2, "HARNESS-ERROR plan: %v", err)
	}
	var plan []planEntry
	json.Unmarshal(lines[0], &plan)
	if len(plan) == 0 {
		die(2, "HARNESS-ERROR no scenario family registered for %s", prop)
	}
	total := 0
	for _, p := range plan {
		total += p.Count
	}

	deadline := time.Now().Add(time.Duration(*budget) * time.Second)
	var mu sync.Mutex
	var sums []batchSummary
	var viols []runResult
	var harnessErrs []string
	var wg sync.WaitGroup
	nw := *workers
	if nw > total {
		nw = total
	}
	chunk := 300
	for wi := 0; wi < nw; wi++ {
		wg.Add(1)
		go func(wi int) {
			defer wg.Done()
			start := wi
			for start >= 0 && time.Now().Before(deadline) {
				mu.Lock()
				stop := len(viols) > 0 || len(harnessErrs) > 0
				mu.Unlock()
				if stop {
					return
				}
				job := map[string]any{"mode": "batch", "property": prop, "tier": *tier, "seed": seed, "worker": wi, "nworkers": nw,
					"start": start, "max_runs": chunk, "deadline_unix_ms": deadline.UnixMilli(), "known": openSigs, "scale": *scale}
				lines, err := runWorker(bin, bdir, job, time.Until(deadline)+4*time.Minute)
				mu.Lock()
				if err != nil {
					harnessErrs = append(harnessErrs, err.Error())
					mu.Unlock()
					return
				}
				next := -1
				for _, ln := range lines {
					if bytes.Contains(ln[:min(len(ln), 20)], []byte(`"summary"`)) {
						var s batchSummary
						if json.Unmarshal(ln, &s) == nil {
							sums = append(sums, s)
							next = s.Next
						}
					} else {
						var r runResult
						if json.Unmarshal(ln, &r) == nil {
							switch r.Outcome {
							case "violation":
								viols = append(viols, r)
							default:
								harnessErrs = append(harnessErrs, fmt.Sprintf("%s: %s (%s)", r.Outcome, r.Message, r.Spec))
							}
						}
					}
				}
				mu.Unlock()
				start = next
			}
		}(wi)
	}
	wg.Wait()
	if len(harnessErrs) > 0 {
		fmt.Fprintf(os.Stderr, "HARNESS-ERROR %s\n", harnessErrs[0])
		return 2
	}

	// aggregate
	agg := batchSummary{PerFamily: map[string]int{}, Faults: map[string]int{}, Probes: map[string]int{}, Policies: map[string]int{}, Outcomes: map[string]int{}, KnownHits: map[string]int{}}
	il := map[string]struct{}{}
	pairs := map[string]struct{}{}
	complete := true
	for _, s := range sums {
		agg.Runs += s.Runs
		agg.Steps += s.Steps
		agg.VirtMS += s.VirtMS
		agg.ReplayUnsafe += s.ReplayUnsafe
		for k, v := range s.PerFamily {
			agg.PerFamily[k] += v
		}
		for k, v := range s.Faults {
			agg.Faults[k] += v
		}
		for k, v := range s.Probes {
			agg.Probes[k] += v
		}
		for k, v := range s.Policies {
			agg.Policies[k] += v
		}
		for k, v := range s.Outcomes {
			agg.Outcomes[k] += v
		}
		for k, v := range s.KnownHits {
			agg.KnownHits[k] += v
		}
		for _, h := range s.ILHashes {
			il[h] = struct{}{}
		}
		for _, p := range s.SitePairs {
			pairs[p] = struct{}{}
		}
		if len(agg.Samples) < 4 {
			agg.Samples = append(agg.Samples, s.Samples...)
		}
	}
	if agg.Runs < total {
		complete = false
	}
	wall := time.Since(t0).Seconds()

	// violation handling
	exit := 0
	var violMsgs []map[string]any
	if len(viols) > 0 {
		sort.Slice(viols, func(i, j int) bool {
			var a, b specHead
			json.Unmarshal(viols[i].Spec, &a)
			json.Unmarshal(viols[j].Spec, &b)
			if a.Family != b.Family {
				return a.Family < b.Family
			}
			return a.Idx < b.Idx
		})
		v := viols[0]
		path := minimizeAndStore(bin, bdir, prop, seed, v, openSigs)
		fmt.Printf("violation: oracle=%s signature=%s\n  %s\n", v.Oracle, v.Signature, firstLines(v.Message, 12))
		fmt.Printf("VIOLATION property=%s replay=%s\n", prop, path)
		violMsgs = append(violMsgs, map[string]any{"oracle": v.Oracle, "signature": v.Signature, "message": firstLines(v.Message, 6), "replay": path})
		exit = 1
	}
	for _, k := range known {
		if k.Property == prop && k.Status == "open" {
			fmt.Printf("KNOWN-FINDING: property=%s %s (%s; hit %d times in this run)\n", prop, k.Signature, k.Description, agg.KnownHits[k.Signature])
		}
	}

	if !*noEvidence {
		writeEvidence(prop, *tier, seed, plan, total, complete, agg, len(il), len(pairs), wall, buildS, violMsgs, known)
	}
	fmt.Printf("%s %s: runs=%d/%d steps=%d simulated=%.1fs distinct_nontrivial=%d outcomes=%v faults=%v wall=%.1fs\n", prop, *tier, agg.Runs, total, agg.Steps,
		float64(agg.VirtMS)/1000, len(il), agg.Outcomes, agg.Faults, wall)
	return exit
}

func firstLines(s string, n int) string {
	ls := strings.Split(s, "\n")
	if len(ls) > n {
		ls = ls[:n]
	}
	return strings.Join(ls, "\n  ")
}

func minimizeAndStore(bin, bdir, prop string, seed uint64, v runResult, known []string) string {
	os.MkdirAll(filepath.Join(verifDir, "replays"), 0o755)
	var head specHead
	json.Unmarshal(v.Spec, &head)
	path := filepath.Join(verifDir, "replays", fmt.Sprintf("%s-%d-%s-%d.json", prop, seed, head.Family, head.Idx))
	// specs travel as raw JSON: they contain 64-bit seeds that float64 would round
	spec := v.Spec
	job := map[string]any{"mode": "minimize", "property": prop, "spec": spec, "known": known}
	lines, err := runWorker(bin, bdir, job, 10*time.Minute)
	var out struct {
		Spec     json.RawMessage `json:"spec"`
		Result   runResult       `json:"result"`
		Verified bool            `json:"verified"`
		Orig     int             `json:"original_decisions"`
		Min      int             `json:"minimized_decisions"`
		Error    string          `json:"error"`
	}
	if err == nil && len(lines) > 0 {
		json.Unmarshal(lines[len(lines)-1], &out)
	}
	file := map[string]any{"property": prop, "seed": seed, "violation": map[string]any{"oracle": v.Oracle, "signature": v.Signature, "message": v.Message}}
	if out.Verified {
		file["spec"] = out.Spec
		res := out.Result
		file["expect"] = map[string]any{"signature": res.Signature, "hash": res.Hash, "steps": res.Steps}
		file["minimised"] = map[string]any{"original_decisions": out.Orig, "decisions": out.Min}
		file["log"] = res.Log
	} else {
		// could not minimise: store the seed-only spec (replays by regenerating the policy decisions)
		file["spec"] = spec
		file["expect"] = map[string]any{"signature": v.Signature, "hash": v.Hash, "steps": v.Steps}
		file["minimised"] = map[string]any{"error": fmt.Sprint(err, out)}
	}
	b, _ := json.MarshalIndent(file, "", " ")
	os.WriteFile(path, b, 0o644)
	return path
}

func writeEvidence(prop, tier string, seed uint64, plan []planEntry, total int, complete bool, agg batchSummary, distinct, sitePairs int, wall, buildS float64, viols []map[string]any, known []knownFinding) {
	level := manifestLevel(prop)
	exhaustive := complete
	var famDesc []string
	for _, p := range plan {
		kind := "sampled"
		if p.Enumerated {
			kind = "enumerated"
		} else {
			exhaustive = false
		}
		famDesc = append(famDesc, fmt.Sprintf("%s(%s,%d cases,%d run)", p.Family, kind, p.Count, agg.PerFamily[p.Family]))
	}
	var samples []any
	for _, s := range agg.Samples {
		samples = append(samples, s) // raw JSON: 64-bit seeds must not be rounded
	}
	if len(samples) == 0 {
		samples = append(samples, "no run completed")
	}
	var kf []string
	for _, k := range known {
		if k.Property == prop && k.Status == "open" {
			kf = append(kf, fmt.Sprintf("%s hits=%d", k.Signature, agg.KnownHits[k.Signature]))
		}
	}
	runsPerHour := 0.0
	if wall > 0 {
		runsPerHour = float64(agg.Runs) / wall * 3600
	}
	cov := map[string]any{
		"evaluations":         agg.Runs,
		"distinct_nontrivial": distinct,
		"rule": "one evaluation = one simulated run of a scenario family case inside a fresh world (seed VERIF_SEED, case index -> scenario, policy and every scheduling/delivery/fault decision). " +
			"distinct = distinct hash of (scenario, sequence of context switches between task sites, delivery/fault decisions); non-trivial = at least one non-default decision, injected fault or named rare-event probe happened in the run (enumerated cases count by their distinct case). Families: " + strings.Join(famDesc, "; "),
		"samples":                    samples,
		"exhaustive":                 exhaustive,
		"planned_cases":              total,
		"families":                   plan,
		"runs_per_family":            agg.PerFamily,
		"scheduler_steps":            agg.Steps,
		"simulated_seconds":          float64(agg.VirtMS) / 1000,
		"runs_per_hour":              runsPerHour,
		"seeds":                      fmt.Sprintf("VERIF_SEED=%d, case indexes 0..%d of each family (PCG(seed, family, index))", seed, total-1),
		"fault_kinds_fired":          agg.Faults,
		"policy_mix":                 agg.Policies,
		"outcomes":                   agg.Outcomes,
		"inconclusive_runs":          agg.Outcomes["inconclusive"],
		"rare_event_probes":          agg.Probes,
		"distinct_switch_site_pairs": sitePairs,
		"replay_unsafe_runs":         agg.ReplayUnsafe,
		"known_findings":             kf,
		"violations_detail":          viols,
		"components":                 componentsNote,
		"build_s":                    buildS,
	}
	ev := map[string]any{
		"property_id": prop, "tier": tier, "seed": seed, "level": level, "coverage": cov,
		"assumptions": []string{
			"statement-level interleavings of Cloak's own packages (instrumented build of the working tree); sub-statement data races are out of scope",
			"network is reliable ordered byte streams (TCP model): no loss or duplication; faults are the kinds listed in fault_kinds_fired",
			"third-party code (uTLS, gorilla, bbolt, net/http, ratelimit) runs real but uninstrumented, one goroutine at a time",
		},
		"wall_s": wall, "violations": len(viols),
	}
	os.MkdirAll(filepath.Join(verifDir, "evidence"), 0o755)
	b, _ := json.MarshalIndent(ev, "", " ")
	os.WriteFile(filepath.Join(verifDir, "evidence", prop+".json"), b, 0o644)
}

const componentsNote = "real: internal/multiplex, internal/server, internal/server/usermanager (bbolt on disk), internal/client, internal/common, internal/ecdh, cmd/ck-client main() in standalone, shadowsocks-plugin (C20), UDP (C14) and admin mode (-a: C18's admin session through the dispatcher's admin branch) and cmd/ck-server main() in standalone and shadowsocks-plugin mode (a third of full-traffic: C01, C03, C10): importable copies with net.Listen / net.ListenUDP / the net.Dialer value / log.Fatal / server.Serve hooked; elsewhere the server world calls InitState + Serve as that main() does, uTLS, gorilla/websocket, juju/ratelimit, net/http, logrus. stub: TCP/UDP (simnet), OS clock (synctest bubble), entropy (seeded), CDN edge, proxy applications, redirect web server, the local UDP socket of client.RouteUDP (simnet packet socket behind a type seam). Instrumented (statement-level scheduling points): internal/multiplex, internal/server, internal/server/usermanager, internal/client, internal/common, cmd/ck-client, cmd/ck-server; package-level variables of these packages are re-initialised inside the bubble at the start of every run; everything else runs as atomic steps"

func atoi(s string) int { n, _ := strconv.Atoi(s); return n }
func atof(s string) float64 {
	f, err := strconv.ParseFloat(s, 64)
	if err != nil {
		return 1
	}
	return f
}

// ---- replay ----

func cmdReplay(args []string) int {
	if len(args) < 1 {
		die(2, "usage: verif replay <file>")
	}
	b, err := os.ReadFile(args[0])
	if err != nil {
		die(2, "%v", err)
	}
	var file struct {
		Property string          `json:"property"`
		Spec     json.RawMessage `json:"spec"`
		Expect   struct {
			Signature string `json:"signature"`
			Hash      string `json:"hash"`
			Steps     int    `json:"steps"`
		} `json:"expect"`
	}
	if err := json.Unmarshal(b, &file); err != nil {
		die(2, "%v", err)
	}
	repo := envDefault("VERIF_REPO", "/repo")
	bdir := filepath.Join(verifDir, ".build", fmt.Sprintf("replay-%d", os.Getpid()))
	defer os.RemoveAll(bdir)
	bin := build(repo, bdir)
	lines, err := runWorker(bin, bdir, map[string]any{"mode": "replay", "property": file.Property, "spec": file.Spec}, 10*time.Minute)
	if err != nil || len(lines) == 0 {
		die(2, "HARNESS-ERROR replay: %v", err)
	}
	var r runResult
	json.Unmarshal(lines[0], &r)
	fmt.Printf("replay %s: outcome=%s end=%s steps=%d hash=%s signature=%s\n  %s\n", args[0], r.Outcome, r.End, r.Steps, r.Hash, r.Signature, firstLines(r.Message, 30))
	if os.Getenv("VERIF_REPLAY_LOG") != "" {
		for _, l := range r.Log {
			fmt.Println("  log:", l)
		}
	}
	if r.Outcome == "diverged" {
		fmt.Printf("replay diverged: %s\n", r.Message)
		return 2
	}
	if r.Outcome == "violation" && r.Signature == file.Expect.Signature {
		if file.Expect.Hash != "" && (r.Hash != file.Expect.Hash || r.Steps != file.Expect.Steps) {
			fmt.Printf("same violation but a different execution (hash %s/%d steps, recorded %s/%d): the tree differs from the one recorded\n", r.Hash, r.Steps, file.Expect.Hash, file.Expect.Steps)
		} else {
			fmt.Println("reproduced exactly (same oracle, same event hash, same step count)")
		}
		fmt.Printf("VIOLATION property=%s replay=%s\n", file.Property, args[0])
		return 1
	}
	fmt.Printf("not reproduced on this tree (recorded signature %s)\n", file.Expect.Signature)
	return 0
}

// ---- selftest ----

func cmdSelftest(args []string) int {
	if len(args) < 1 || args[0] != "determinism" {
		die(2, "usage: verif selftest determinism [props...] ")
	}
	props := args[1:]
	if len(props) == 0 {
		props = []string{"C01"}
	}
	repo := envDefault("VERIF_REPO", "/repo")
	bdir := filepath.Join(verifDir, ".build", fmt.Sprintf("selftest-%d", os.Getpid()))
	defer os.RemoveAll(bdir)
	bin := build(repo, bdir)
	bad := 0
	nseeds := atoi(envDefault("VERIF_SELFTEST_RUNS", "40"))
	for _, prop := range props {
		// the same 40 cases executed by 3 fresh processes under 1, 4 and 16 competing workers
		var ref map[string]string
		for round, load := range []int{1, 4, 16} {
			var wg sync.WaitGroup
			results := make([]map[string]string, load)
			for k := 0; k < load; k++ {
				wg.Add(1)
				go func(k int) {
					defer wg.Done()
					job := map[string]any{"mode": "hashes", "property": prop, "tier": "quick", "seed": 777, "worker": 0, "nworkers": 1, "start": 0, "max_runs": nseeds}
					lines, err := runWorker(bin, bdir, job, 20*time.Minute)
					if err != nil {
						fmt.Fprintf(os.Stderr, "selftest worker: %v\n", err)
						return
					}
					m := map[string]string{}
					for _, ln := range lines {
						var e struct{ Case, Hash string }
						if json.Unmarshal(ln, &e) == nil && e.Case != "" {
							m[e.Case] = e.Hash
						}
					}
					results[k] = m
				}(k)
			}
			wg.Wait()
			for k, m := range results {
				if m == nil {
					bad++
					continue
				}
				if ref == nil {
					ref = m
					continue
				}
				for c, h := range ref {
					if m[c] != h {
						fmt.Printf("NONDETERMINISM %s case %s: %s vs %s (round %d load %d proc %d)\n", prop, c, h, m[c], round, load, k)
						bad++
					}
				}
			}
		}
		fmt.Printf("determinism %s: %d cases x 21 processes compared, %d mismatches\n", prop, len(ref), bad)
	}
	if bad > 0 {
		return 2
	}
	return 0
}
