// verif-instrument <repo> <outdir> <overlaydir>: stand-alone entry to the instrumenter (debugging aid).
package main

import (
	"fmt"
	"os"

	"veriftools/instrument"
)

func main() {
	if len(os.Args) != 4 {
		fmt.Fprintln(os.Stderr, "usage: verif-instrument <repo> <outdir> <overlaydir>")
		os.Exit(2)
	}
	st, err := instrument.Build(os.Args[1], os.Args[2], os.Args[3])
	if err != nil {
		fmt.Fprintln(os.Stderr, "instrument:", err)
		os.Exit(2)
	}
	fmt.Printf("%+v\n", *st)
}
