// Package instrument rewrites Cloak's own packages so that every goroutine
// switch, lock, condition variable, timer callback and map iteration goes
// through the simsync scheduler (DESIGN.md 2.2). The rewrite is purely
// structural (go/ast + a tolerant go/types pass used only to recognise map
// ranges) so it keeps working on edited sources.
package instrument

import (
	"bytes"
	"encoding/json"
	"fmt"
	"go/ast"
	"go/build/constraint"
	"go/format"
	"go/parser"
	"go/token"
	"go/types"
	"os"
	"path/filepath"
	"sort"
	"strings"
)

const SimsyncImport = "github.com/cbeuw/Cloak/internal/simsync"

// Packages instrumented (relative to the repository root).
var Packages = []string{"internal/multiplex", "internal/server", "internal/server/usermanager", "internal/client", "internal/common"}

// Programs: command packages that are made importable for the simulation. The
// copy is the shipped source with the package clause renamed, main() renamed
// Main(), and the process-level calls replaced by hooks the harness sets:
// net.Listen / net.ListenUDP -> simsync.HookListen / HookListenUDP,
// &net.Dialer{...} -> simsync.HookDialer(&net.Dialer{...}) (the harness sees
// the dialer the program built), log.Fatal* -> simsync.Fatal* (unwinds the
// task instead of exiting the process), server.Serve -> simsync.HookServe (the
// harness learns the State that ck-server's main() built before serving).
var Programs = map[string]string{"cmd/ck-client": "internal/verifmain/ckclient", "cmd/ck-server": "internal/verifmain/ckserver"}

type Stats struct {
	Files        int
	Yields       int
	GoStmts      int
	MapRanges    int
	Timers       int
	TypeSeams    int
	ProgramHooks int
	TxCallbacks  int
	// Reinits: package-level variables re-initialised at the start of every run
	Reinits int
	// RangesUnknown lists range statements whose operand type could not be
	// resolved (possible un-rewritten map iteration).
	RangesUnknown []string
}

// Build instruments repo into outDir and writes outDir/overlay.json. overlayDir
// holds files that are added to packages of the repo (accessors, simsync).
func Build(repo, outDir, overlayDir string) (*Stats, error) {
	st := &Stats{}
	overlay := map[string]string{}
	type job struct{ src, dst, asPkg string }
	var jobs []job
	for _, pkg := range Packages {
		jobs = append(jobs, job{pkg, pkg, ""})
	}
	for src, dst := range Programs {
		jobs = append(jobs, job{src, dst, filepath.Base(dst)})
	}
	sort.Slice(jobs, func(i, j int) bool { return jobs[i].src < jobs[j].src })
	for _, jb := range jobs {
		pkg := jb.src
		dir := filepath.Join(repo, pkg)
		ents, err := os.ReadDir(dir)
		if err != nil {
			return nil, err
		}
		var names []string
		for _, e := range ents {
			n := e.Name()
			if e.IsDir() || !strings.HasSuffix(n, ".go") || strings.HasSuffix(n, "_test.go") {
				continue
			}
			names = append(names, n)
		}
		sort.Strings(names)
		fset := token.NewFileSet()
		var files []*ast.File
		var fnames []string
		for _, n := range names {
			src := filepath.Join(dir, n)
			f, err := parser.ParseFile(fset, src, nil, parser.ParseComments)
			if err != nil {
				return nil, fmt.Errorf("parse %s: %w", src, err)
			}
			if excludedByBuildTag(f) {
				continue
			}
			files = append(files, f)
			fnames = append(fnames, n)
		}
		info := typeCheck(fset, files)
		for i, f := range files {
			n := fnames[i]
			in := &inst{fset: fset, rel: filepath.Join(pkg, n), info: info, st: st}
			if jb.asPkg != "" {
				in.program(f, jb.asPkg)
			}
			in.file(f)
			dst := filepath.Join(outDir, jb.dst, n)
			if err := os.MkdirAll(filepath.Dir(dst), 0o755); err != nil {
				return nil, err
			}
			var buf bytes.Buffer
			if err := format.Node(&buf, fset, f); err != nil {
				return nil, fmt.Errorf("print %s: %w", n, err)
			}
			if err := os.WriteFile(dst, buf.Bytes(), 0o644); err != nil {
				return nil, err
			}
			overlay[filepath.Join(repo, jb.dst, n)] = dst
			st.Files++
		}
	}
	// files added to the repo's packages through the overlay
	err := filepath.Walk(overlayDir, func(p string, fi os.FileInfo, err error) error {
		if err != nil || fi.IsDir() || !(strings.HasSuffix(p, ".go") || strings.HasSuffix(p, ".s")) {
			return err
		}
		rel, _ := filepath.Rel(overlayDir, p)
		overlay[filepath.Join(repo, "internal", rel)] = p
		return nil
	})
	if err != nil {
		return nil, err
	}
	b, _ := json.MarshalIndent(map[string]any{"Replace": overlay}, "", " ")
	if err := os.WriteFile(filepath.Join(outDir, "overlay.json"), b, 0o644); err != nil {
		return nil, err
	}
	return st, nil
}

func excludedByBuildTag(f *ast.File) bool {
	for _, cg := range f.Comments {
		if cg.Pos() > f.Package {
			break
		}
		for _, c := range cg.List {
			t := c.Text
			if strings.HasPrefix(t, "//go:build") {
				expr, err := constraint.Parse(t)
				if err != nil {
					continue
				}
				ok := expr.Eval(func(tag string) bool {
					return tag == "linux" || tag == "amd64" || tag == "unix" || tag == "verif" || strings.HasPrefix(tag, "go1.")
				})
				return !ok
			}
		}
	}
	return false
}

type fakeImporter struct{}

func (fi fakeImporter) Import(path string) (*types.Package, error) {
	// Every import is an empty placeholder: expressions that involve it get an
	// invalid type, which is fine for our purpose (recognising ranges over maps
	// whose type is declared in the package itself). Such ranges are listed in
	// Stats.RangesUnknown.
	name := path[strings.LastIndex(path, "/")+1:]
	p := types.NewPackage(path, name)
	p.MarkComplete()
	return p, nil
}

func typeCheck(fset *token.FileSet, files []*ast.File) *types.Info {
	info := &types.Info{Types: map[ast.Expr]types.TypeAndValue{}}
	conf := types.Config{
		Importer:                 fakeImporter{},
		Error:                    func(error) {},
		DisableUnusedImportCheck: true,
	}
	conf.Check("p", fset, files, info) // errors ignored on purpose
	return info
}

type inst struct {
	fset *token.FileSet
	rel  string
	info *types.Info
	st   *Stats
	tmp  int
}

func sel(x, s string) *ast.SelectorExpr {
	return &ast.SelectorExpr{X: ast.NewIdent(x), Sel: ast.NewIdent(s)}
}

func (in *inst) site(p token.Pos) *ast.BasicLit {
	pos := in.fset.Position(p)
	return &ast.BasicLit{Kind: token.STRING, Value: fmt.Sprintf("%q", fmt.Sprintf("%s:%d", in.rel, pos.Line))}
}

func (in *inst) yieldStmt(p token.Pos) ast.Stmt {
	in.st.Yields++
	return &ast.ExprStmt{X: &ast.CallExpr{Fun: sel("simsync", "Yield"), Args: []ast.Expr{in.site(p)}}}
}

func (in *inst) program(f *ast.File, asPkg string) {
	f.Name = ast.NewIdent(asPkg)
	for _, d := range f.Decls {
		if fd, ok := d.(*ast.FuncDecl); ok && fd.Recv == nil && fd.Name.Name == "main" {
			fd.Name = ast.NewIdent("Main")
		}
	}
	isSel := func(e ast.Expr, x, s string) bool {
		se, ok := e.(*ast.SelectorExpr)
		if !ok {
			return false
		}
		id, ok := se.X.(*ast.Ident)
		return ok && id.Name == x && se.Sel.Name == s
	}
	wrapDialer := func(e ast.Expr) ast.Expr {
		if u, ok := e.(*ast.UnaryExpr); ok && u.Op == token.AND {
			if cl, ok := u.X.(*ast.CompositeLit); ok && isSel(cl.Type, "net", "Dialer") {
				in.st.ProgramHooks++
				return &ast.CallExpr{Fun: sel("simsync", "HookDialer"), Args: []ast.Expr{e}}
			}
		}
		return e
	}
	ast.Inspect(f, func(n ast.Node) bool {
		switch n := n.(type) {
		case *ast.CallExpr:
			switch {
			case isSel(n.Fun, "net", "Listen"):
				n.Fun = sel("simsync", "HookListen")
				in.st.ProgramHooks++
			case isSel(n.Fun, "net", "ListenUDP"):
				n.Fun = sel("simsync", "HookListenUDP")
				in.st.ProgramHooks++
			case isSel(n.Fun, "log", "Fatal"):
				n.Fun = sel("simsync", "Fatal")
				in.st.ProgramHooks++
			case isSel(n.Fun, "log", "Fatalf"):
				n.Fun = sel("simsync", "Fatalf")
				in.st.ProgramHooks++
			case isSel(n.Fun, "server", "Serve"):
				n.Fun = sel("simsync", "HookServe")
				in.st.ProgramHooks++
			}
			if !isSel(n.Fun, "simsync", "HookDialer") {
				for i, a := range n.Args {
					n.Args[i] = wrapDialer(a)
				}
			}
		case *ast.AssignStmt:
			for i, r := range n.Rhs {
				n.Rhs[i] = wrapDialer(r)
			}
		case *ast.Field:
			if star, ok := n.Type.(*ast.StarExpr); ok && isSel(star.X, "net", "UDPConn") {
				n.Type = sel("net", "PacketConn")
				in.st.TypeSeams++
			}
		}
		return true
	})
}

func (in *inst) file(f *ast.File) {
	// 1. selector rewrites: sync.{Mutex,RWMutex,Cond,NewCond,Map} -> simsync,
	//    time.AfterFunc(d, f) -> simsync.AfterFuncAt(site, d, f)
	ast.Inspect(f, func(n ast.Node) bool {
		switch n := n.(type) {
		case *ast.CallExpr:
			if se, ok := n.Fun.(*ast.SelectorExpr); ok && (se.Sel.Name == "Update" || se.Sel.Name == "View" || se.Sel.Name == "Batch") && len(n.Args) == 1 {
				if fl, ok := n.Args[0].(*ast.FuncLit); ok {
					// a database transaction callback: no scheduling point inside
					// (helpers it calls are instrumented functions of the package)
					enter := &ast.ExprStmt{X: &ast.CallExpr{Fun: sel("simsync", "AtomicEnter")}}
					leave := &ast.DeferStmt{Call: &ast.CallExpr{Fun: sel("simsync", "AtomicLeave")}}
					fl.Body.List = append([]ast.Stmt{enter, leave}, fl.Body.List...)
					in.st.TxCallbacks++
				}
			}
			if se, ok := n.Fun.(*ast.SelectorExpr); ok {
				if id, ok := se.X.(*ast.Ident); ok && id.Name == "time" && se.Sel.Name == "AfterFunc" && len(n.Args) == 2 {
					n.Fun = sel("simsync", "AfterFuncAt")
					n.Args = append([]ast.Expr{in.site(n.Pos())}, n.Args...)
					in.st.Timers++
				}
			}
		case *ast.Field:
			// type seam for the client's UDP router: RouteUDP asks for a concrete
			// *net.UDPConn but only uses ReadFrom/WriteTo/Close; in the instrumented
			// copy the parameter types become net.PacketConn so that the simulated
			// network can stand in for the local UDP socket (a tree that starts using
			// UDPConn-only methods no longer builds: exit 2, never a violation)
			if strings.HasPrefix(in.rel, "internal/client/") {
				if star, ok := n.Type.(*ast.StarExpr); ok {
					if se, ok := star.X.(*ast.SelectorExpr); ok {
						if id, ok := se.X.(*ast.Ident); ok && id.Name == "net" && se.Sel.Name == "UDPConn" {
							n.Type = sel("net", "PacketConn")
							in.st.TypeSeams++
						}
					}
				}
			}
		case *ast.SelectorExpr:
			if id, ok := n.X.(*ast.Ident); ok && id.Name == "sync" {
				switch n.Sel.Name {
				case "Mutex", "RWMutex", "Cond", "NewCond", "Map":
					id.Name = "simsync"
				}
			}
		}
		return true
	})
	// 2. statements
	for _, d := range f.Decls {
		if fd, ok := d.(*ast.FuncDecl); ok && fd.Body != nil {
			in.block(fd.Body)
		}
	}
	// 2b. package-level variables whose initialiser calls something (make,
	//     errors.New, a constructor) are initialised again at the start of every
	//     simulated run, inside the bubble: each run starts from a fresh process
	//     image, and channels, timers and pools created this way belong to the
	//     bubble (a goroutine blocked on a channel made outside it is not durably
	//     blocked for testing/synctest, and the simulation would stall)
	var reinit []ast.Stmt
	for _, d := range f.Decls {
		gd, ok := d.(*ast.GenDecl)
		if !ok || gd.Tok != token.VAR {
			continue
		}
		for _, sp := range gd.Specs {
			vs, ok := sp.(*ast.ValueSpec)
			if !ok || len(vs.Values) != len(vs.Names) {
				continue
			}
			for i, name := range vs.Names {
				if name.Name == "_" || !containsCall(vs.Values[i]) {
					continue
				}
				reinit = append(reinit, &ast.AssignStmt{Lhs: []ast.Expr{ast.NewIdent(name.Name)}, Tok: token.ASSIGN, Rhs: []ast.Expr{vs.Values[i]}})
				in.st.Reinits++
			}
		}
	}
	if len(reinit) > 0 {
		fname := "verifReinit_" + strings.Map(func(r rune) rune {
			if r >= 'a' && r <= 'z' || r >= 'A' && r <= 'Z' || r >= '0' && r <= '9' {
				return r
			}
			return '_'
		}, filepath.Base(in.rel))
		f.Decls = append(f.Decls, &ast.FuncDecl{Name: ast.NewIdent(fname), Type: &ast.FuncType{Params: &ast.FieldList{}}, Body: &ast.BlockStmt{List: reinit}})
		reg := &ast.ExprStmt{X: &ast.CallExpr{Fun: sel("simsync", "RegisterReinit"), Args: []ast.Expr{ast.NewIdent(fname)}}}
		f.Decls = append(f.Decls, &ast.FuncDecl{Name: ast.NewIdent("init"), Type: &ast.FuncType{Params: &ast.FieldList{}}, Body: &ast.BlockStmt{List: []ast.Stmt{reg}}})
	}
	// 3. imports: add simsync, keep sync/time alive
	spec := &ast.ImportSpec{Path: &ast.BasicLit{Kind: token.STRING, Value: fmt.Sprintf("%q", SimsyncImport)}}
	f.Decls = append([]ast.Decl{&ast.GenDecl{Tok: token.IMPORT, Specs: []ast.Spec{spec}}}, f.Decls...)
	keep := func(x, s string) {
		f.Decls = append(f.Decls, &ast.GenDecl{Tok: token.VAR, Specs: []ast.Spec{&ast.ValueSpec{Names: []*ast.Ident{ast.NewIdent("_")}, Type: sel(x, s)}}})
	}
	f.Decls = append(f.Decls, &ast.GenDecl{Tok: token.VAR, Specs: []ast.Spec{&ast.ValueSpec{Names: []*ast.Ident{ast.NewIdent("_")}, Values: []ast.Expr{sel("simsync", "Yield")}}}})
	for _, im := range f.Imports {
		if im.Name != nil {
			continue
		}
		switch im.Path.Value {
		case `"sync"`:
			keep("sync", "Once")
		case `"time"`:
			keep("time", "Duration")
		}
	}
	f.Imports = append(f.Imports, spec)
	// comment positions are confused by inserted nodes: keep only what
	// precedes the package clause (licences, build constraints)
	var keepc []*ast.CommentGroup
	for _, cg := range f.Comments {
		if cg.End() < f.Package {
			keepc = append(keepc, cg)
		}
	}
	f.Comments = keepc
}

// containsCall: does the expression call anything (function literals' bodies do not count)?
func containsCall(e ast.Expr) bool {
	found := false
	ast.Inspect(e, func(n ast.Node) bool {
		switch n.(type) {
		case *ast.FuncLit:
			return false
		case *ast.CallExpr:
			found = true
		}
		return !found
	})
	return found
}

func (in *inst) block(b *ast.BlockStmt) {
	if b != nil {
		b.List = in.list(b.List)
	}
}

func (in *inst) list(l []ast.Stmt) []ast.Stmt {
	var out []ast.Stmt
	for _, s := range l {
		pos := s.Pos()
		_, isLabel := s.(*ast.LabeledStmt)
		s = in.stmt(s)
		if !isLabel {
			out = append(out, in.yieldStmt(pos))
		}
		out = append(out, s)
	}
	return out
}

func (in *inst) funcLitsIn(exprs []ast.Expr) {
	for _, e := range exprs {
		if fl, ok := e.(*ast.FuncLit); ok {
			in.block(fl.Body)
		}
	}
}

func (in *inst) stmt(s ast.Stmt) ast.Stmt {
	switch s := s.(type) {
	case *ast.BlockStmt:
		in.block(s)
	case *ast.IfStmt:
		in.block(s.Body)
		if s.Else != nil {
			s.Else = in.stmt(s.Else)
		}
	case *ast.ForStmt:
		in.block(s.Body)
	case *ast.RangeStmt:
		in.block(s.Body)
		return in.rangeStmt(s)
	case *ast.SwitchStmt:
		in.cases(s.Body)
	case *ast.TypeSwitchStmt:
		in.cases(s.Body)
	case *ast.SelectStmt:
		in.cases(s.Body)
	case *ast.LabeledStmt:
		if r, ok := s.Stmt.(*ast.RangeStmt); ok {
			// a labelled range must stay a range (continue L); body only
			in.block(r.Body)
			pos := in.fset.Position(r.Pos())
			in.st.RangesUnknown = append(in.st.RangesUnknown, fmt.Sprintf("%s:%d(labelled)", in.rel, pos.Line))
		} else {
			s.Stmt = in.stmt(s.Stmt)
		}
	case *ast.GoStmt:
		return in.goStmt(s)
	case *ast.DeferStmt:
		if fl, ok := s.Call.Fun.(*ast.FuncLit); ok {
			in.block(fl.Body)
		}
	case *ast.AssignStmt:
		// closures bound to variables (goWeb := func(){...}) run on Cloak's
		// own goroutines: instrument them
		in.funcLitsIn(s.Rhs)
	case *ast.ReturnStmt:
		in.funcLitsIn(s.Results)
	case *ast.DeclStmt:
		if gd, ok := s.Decl.(*ast.GenDecl); ok {
			for _, sp := range gd.Specs {
				if vs, ok := sp.(*ast.ValueSpec); ok {
					in.funcLitsIn(vs.Values)
				}
			}
		}
	}
	return s
}

func (in *inst) cases(b *ast.BlockStmt) {
	for _, c := range b.List {
		switch c := c.(type) {
		case *ast.CaseClause:
			c.Body = in.list(c.Body)
		case *ast.CommClause:
			c.Body = in.list(c.Body)
		}
	}
}

// go f(a,b) => { simFn, simA0, simA1 := f, a, b; simsync.Go(site, func(){ simFn(simA0,simA1) }) }
func (in *inst) goStmt(g *ast.GoStmt) ast.Stmt {
	in.st.GoStmts++
	call := g.Call
	var lhs, rhs []ast.Expr
	var fun ast.Expr
	if fl, ok := call.Fun.(*ast.FuncLit); ok {
		in.block(fl.Body)
		fun = fl
	} else {
		lhs = append(lhs, ast.NewIdent("simFn"))
		rhs = append(rhs, call.Fun)
		fun = ast.NewIdent("simFn")
	}
	var args []ast.Expr
	for i, a := range call.Args {
		id := ast.NewIdent(fmt.Sprintf("simA%d", i))
		lhs = append(lhs, id)
		rhs = append(rhs, a)
		args = append(args, id)
	}
	inner := &ast.FuncLit{Type: &ast.FuncType{Params: &ast.FieldList{}}, Body: &ast.BlockStmt{List: []ast.Stmt{&ast.ExprStmt{X: &ast.CallExpr{Fun: fun, Args: args, Ellipsis: call.Ellipsis}}}}}
	goCall := &ast.ExprStmt{X: &ast.CallExpr{Fun: sel("simsync", "Go"), Args: []ast.Expr{in.site(g.Pos()), inner}}}
	blk := &ast.BlockStmt{}
	if len(lhs) > 0 {
		blk.List = append(blk.List, &ast.AssignStmt{Lhs: lhs, Tok: token.DEFINE, Rhs: rhs})
	}
	blk.List = append(blk.List, goCall)
	return blk
}

func isBlank(e ast.Expr) bool {
	if e == nil {
		return true
	}
	id, ok := e.(*ast.Ident)
	return ok && id.Name == "_"
}

// for k, v := range m {body}  (m a map)  =>
//
//	{ simM := m; for _, simK := range simsync.SortedKeys(simM) { simV, simOK := simM[simK]; if !simOK {continue}; k, v := simK, simV; body } }
func (in *inst) rangeStmt(r *ast.RangeStmt) ast.Stmt {
	tv, ok := in.info.Types[r.X]
	if !ok || tv.Type == nil || tv.Type == types.Typ[types.Invalid] {
		pos := in.fset.Position(r.Pos())
		in.st.RangesUnknown = append(in.st.RangesUnknown, fmt.Sprintf("%s:%d", in.rel, pos.Line))
		return r
	}
	if _, isMap := tv.Type.Underlying().(*types.Map); !isMap {
		return r
	}
	in.st.MapRanges++
	in.tmp++
	m := ast.NewIdent(fmt.Sprintf("simM%d", in.tmp))
	k := ast.NewIdent(fmt.Sprintf("simK%d", in.tmp))
	v := ast.NewIdent(fmt.Sprintf("simV%d", in.tmp))
	okId := ast.NewIdent(fmt.Sprintf("simOK%d", in.tmp))
	var pre []ast.Stmt
	pre = append(pre, &ast.AssignStmt{Lhs: []ast.Expr{v, okId}, Tok: token.DEFINE, Rhs: []ast.Expr{&ast.IndexExpr{X: m, Index: k}}})
	pre = append(pre, &ast.IfStmt{Cond: &ast.UnaryExpr{Op: token.NOT, X: okId}, Body: &ast.BlockStmt{List: []ast.Stmt{&ast.BranchStmt{Tok: token.CONTINUE}}}})
	pre = append(pre, &ast.AssignStmt{Lhs: []ast.Expr{ast.NewIdent("_")}, Tok: token.ASSIGN, Rhs: []ast.Expr{v}})
	tok := r.Tok
	if tok == token.ILLEGAL {
		tok = token.ASSIGN
	}
	var lhs, rhs []ast.Expr
	if !isBlank(r.Key) {
		lhs, rhs = append(lhs, r.Key), append(rhs, k)
	}
	if !isBlank(r.Value) {
		lhs, rhs = append(lhs, r.Value), append(rhs, v)
	}
	if len(lhs) > 0 {
		pre = append(pre, &ast.AssignStmt{Lhs: lhs, Tok: tok, Rhs: rhs})
	}
	body := &ast.BlockStmt{List: append(pre, r.Body.List...)}
	loop := &ast.RangeStmt{Key: ast.NewIdent("_"), Value: k, Tok: token.DEFINE,
		X:    &ast.CallExpr{Fun: sel("simsync", "SortedKeys"), Args: []ast.Expr{m}},
		Body: body}
	return &ast.BlockStmt{List: []ast.Stmt{
		&ast.AssignStmt{Lhs: []ast.Expr{m}, Tok: token.DEFINE, Rhs: []ast.Expr{r.X}},
		loop,
	}}
}
