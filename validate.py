#!/opt/veriftools/pyvenv/bin/python
import json,jsonschema,glob,sys
m=json.load(open('/verif/MANIFEST.json')); s=json.load(open('/root/.vp/MANIFEST.schema.json')); jsonschema.validate(m,s)
props=[json.loads(l)['id'] for l in open('/verif/properties.jsonl')]
claimed=[c['property_id'] for c in m['checks']]; na=[c['property_id'] for c in m.get('not_applicable',[])]
assert sorted(claimed+na)==sorted(props), (sorted(claimed+na), props)
es=json.load(open('/root/.vp/EVIDENCE.schema.json'))
for f in glob.glob('/verif/evidence/*.json'):
    e=json.load(open(f)); jsonschema.validate(e,es)
    lv=[c['level_claimed']['category'] for c in m['checks'] if c['property_id']==e['property_id']]
    if lv and lv[0]!=e['level']: print("LEVEL MISMATCH",f,lv,e['level'])
    print(f, e['tier'], e['coverage']['evaluations'], e['coverage']['distinct_nontrivial'], 'viol',e.get('violations'))
print("ok: claimed",claimed)
