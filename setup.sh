#!/bin/bash
# Builds the driver from files on disk only (offline) and warms the build cache.
set -e
export GOFLAGS=-mod=mod GOPROXY=off GOSUMDB=off GOTOOLCHAIN=local
cd /verif/tools
/opt/veriftools/go1.26.8/bin/go build -o /verif/bin/verif ./cmd/verif
/opt/veriftools/go1.26.8/bin/go build -o /verif/bin/verif-instrument ./cmd/verif-instrument
mkdir -p /verif/evidence /verif/replays
