package verifsim

import (
	"bytes"
	"crypto/aes"
	"crypto/cipher"
	"encoding/base64"
	"encoding/binary"
	"encoding/hex"
	"fmt"
	"math/rand/v2"
	"time"

	"github.com/cbeuw/Cloak/internal/server"
	"github.com/cbeuw/Cloak/internal/simsync"
)

// ---- C07: only valid, timely credentials are accepted (W-auth part) ----

type C07Scenario struct {
	Client ClientParams `json:"client"`
	WS     bool         `json:"ws,omitempty"`
	Mod    string       `json:"mod"` // none | flip | edit | truncate | wrongkey
	Bit    int          `json:"bit,omitempty"`
	N      int          `json:"n,omitempty"`
	// SrvPhaseMS: the server clock is this many ms past a whole second when the packet is judged
	SrvPhaseMS int64  `json:"srv_phase_ms,omitempty"`
	Seed       uint64 `json:"seed"`
}

var c07Browsers = []string{"firefox", "safari", "chrome"}

// sizes of the enumerated bit spaces (upper bounds: a case beyond the actual
// packet length is a no-op)
const c07MaxHelloBytes = 2200
const c07MaxWSBytes = 400

func c07FlipCount(tier string) int {
	n := 2*700*8 + c07MaxWSBytes*8 // firefox + safari (about 520..700 bytes) + WebSocket request
	if tier == "thorough" {
		n += c07MaxHelloBytes * 8 // chrome
	}
	return n
}

func genC07Flip(g *Gen) any {
	i := g.Idx
	sc := &C07Scenario{Mod: "flip", Seed: 0xC07}
	sc.Client = ClientParams{Method: "shadowsocks", Encryption: "aes-gcm", Transport: "direct", NumConn: 1, SessionID: 0x01020304}
	switch {
	case i < 700*8:
		sc.Client.Browser, sc.Bit = "firefox", i
	case i < 2*700*8:
		sc.Client.Browser, sc.Bit = "safari", i-700*8
	case i < 2*700*8+c07MaxWSBytes*8:
		sc.WS, sc.Bit = true, i-2*700*8
	default:
		sc.Client.Browser, sc.Bit = "chrome", i-2*700*8-c07MaxWSBytes*8
	}
	return sc
}

func genC07Random(g *Gen) any {
	sc := &C07Scenario{Seed: g.Rng.Uint64(), WS: g.Bool(0.25)}
	sc.Client = ClientParams{Method: []string{"shadowsocks", "openvpn", "a", "twelve-chars"}[g.Rng.IntN(4)], Encryption: []string{"plain", "aes-gcm", "aes-128-gcm", "chacha20-poly1305"}[g.Rng.IntN(4)],
		Browser: c07Browsers[g.Rng.IntN(3)], Transport: "direct", NumConn: 1, SessionID: g.Rng.Uint32(), UDP: g.Bool(0.3)}
	sc.SrvPhaseMS = int64(g.Int(0, 999))
	switch g.Int(0, 5) {
	case 0: // window edges: timestamps at now +-{179,180,181} s and around
		edge := int64(g.Pick(-181, -180, -179, 179, 180, 181)) * 1000
		sc.Client.SkewMS = edge + int64(g.Int(-1500, 1500))
		if g.Bool(0.5) {
			// exactly on a whole second, server clock on a whole second too: the
			// window is open at both ends
			sc.Client.SkewMS = edge
			sc.SrvPhaseMS = int64(g.Pick(0, 0, 1, 999))
		}
		sc.Mod = "none"
	case 1:
		sc.Client.SkewMS = int64(g.Int(-400000, 400000))
		sc.Mod = "none"
		if g.Bool(0.3) {
			// a client clock centuries away: beyond what a time.Duration can express
			// (292 years), at the ends of the 64-bit range, at and before the epoch
			const now = 946684800 // the bubble's clock starts at 2000-01-01
			sc.Client.AbsTimeS = []int64{now + 10000000000, now - 10000000000, 1 << 40, 1 << 62, 1<<63 - 1, -(1 << 62), -1 << 63, 1, -1,
				now + 9223372037, now + 9223372036, now - 9223372037}[g.Rng.IntN(12)]
		}
	case 2:
		sc.Mod = "edit"
		sc.N = g.Int(1, 6)
	case 3:
		sc.Mod = "truncate"
		sc.N = g.Int(1, 600)
	case 4:
		sc.Mod = "wrongkey"
	default:
		// a peer holding no key at all: a low-order point where the ephemeral key
		// goes (every private key maps it to the all-zero secret) and the identity
		// block sealed under that all-zero secret
		sc.Mod = "keyless"
		sc.N = g.Int(0, len(c07LowOrder)-1)
	}
	return sc
}

// the u-coordinates below 2^255 on which X25519 yields zero for every scalar
var c07LowOrder = []string{
	"0000000000000000000000000000000000000000000000000000000000000000",
	"0100000000000000000000000000000000000000000000000000000000000000",
	"e0eb7a7c3b41b8ae1656e3faf19fc46ada098deb9c32b1fd866205165f49b800",
	"5f9c95bca3508c24b1d0b1559c83ef5b04445cc4581c8e86d8224eddd09f1157",
	"ecffffffffffffffffffffffffffffffffffffffffffffffffffffffffffff7f",
	"edffffffffffffffffffffffffffffffffffffffffffffffffffffffffffff7f",
	"eeffffffffffffffffffffffffffffffffffffffffffffffffffffffffffff7f",
}

// c07Keyless builds the 32-byte key field and the 64-byte sealed identity block
// of a peer that knows the UID but neither the server's key nor any other.
func c07Keyless(which int, p ClientParams, now time.Time) (point, sealed []byte) {
	point, _ = hex.DecodeString(c07LowOrder[which%len(c07LowOrder)])
	pt := make([]byte, 48)
	copy(pt, p.UID)
	copy(pt[16:28], p.Method)
	pt[28] = 1
	binary.BigEndian.PutUint64(pt[29:37], uint64(now.Unix()))
	binary.BigEndian.PutUint32(pt[37:41], p.SessionID)
	b, _ := aes.NewCipher(make([]byte, 32))
	g, _ := cipher.NewGCM(b)
	return point, g.Seal(nil, point[:12], pt, nil)
}

type authRanges [][2]int // byte ranges [from,to) that carry the authentication payload

func (a authRanges) has(pos int) bool {
	for _, r := range a {
		if pos >= r[0] && pos < r[1] {
			return true
		}
	}
	return false
}

func runC07(c *Ctx, scAny any) {
	sc := scAny.(*C07Scenario)
	w := NewSrvWorld(c, SrvParams{NBypass: 1})
	defer w.Cleanup()
	// place the server clock at the requested sub-second phase
	w.Skew = time.Duration(sc.SrvPhaseMS) * time.Millisecond
	sc.Client.UID = w.Bypass[0]
	rng := rand.New(rand.NewPCG(sc.Seed, 7))
	saved := w.PubRaw
	if sc.Mod == "wrongkey" {
		// the client encrypts to some other server's key
		other := NewSrvKey(rng)
		w.PubRaw = other
	}
	var tr server.Transport = server.TLS{}
	var pkt []byte
	var err error
	if sc.WS {
		tr = server.WebSocket{}
		pkt, _, err = wsFirstPacket(w, sc.Client, rng)
	} else {
		pkt, err = w.FirstPacket(sc.Client, rng)
	}
	w.PubRaw = saved
	if err != nil {
		c.Fail("setup", "hello", "%v", err)
		return
	}
	clientNow := time.Now().Add(time.Duration(sc.Client.SkewMS) * time.Millisecond)
	ts := clientNow.Unix()
	if sc.Client.AbsTimeS != 0 {
		ts = sc.Client.AbsTimeS
	}
	// which bytes carry the authentication payload?
	var auth authRanges
	if sc.WS {
		i := bytes.Index(pkt, []byte("Hidden: "))
		j := bytes.Index(pkt[i:], []byte("\r\n"))
		auth = authRanges{{i + 8, i + j}}
	} else {
		ch, perr := parseClientHello(pkt)
		if perr != nil {
			c.Fail("wire", "client-hello", "the client's own hello does not parse: %v", perr)
			return
		}
		if ch.SessionIDLen != 32 || ch.KeyShareLen != 32 {
			c.Fail("wire", "client-hello", "session id %d bytes, key share %d bytes", ch.SessionIDLen, ch.KeyShareLen)
			return
		}
		auth = authRanges{{ch.RandomOff, ch.RandomOff + 32}, {ch.SessionIDOff, ch.SessionIDOff + 32}, {ch.KeyShareOff, ch.KeyShareOff + 32}}
	}
	// reference ClientInfo: what a fresh state makes of the unmodified packet
	mod := append([]byte(nil), pkt...)
	touchedAuth := false
	desc := sc.Mod
	switch sc.Mod {
	case "flip":
		if sc.Bit/8 >= len(pkt) {
			c.Probe("beyond_packet")
			return
		}
		mod[sc.Bit/8] ^= 1 << (sc.Bit % 8)
		touchedAuth = auth.has(sc.Bit / 8)
		desc = fmt.Sprintf("bit %d of byte %d flipped (packet of %d bytes, authentication fields at %v)", sc.Bit%8, sc.Bit/8, len(pkt), auth)
	case "edit":
		for i := 0; i < sc.N; i++ {
			p := rng.IntN(len(mod))
			mod[p] ^= byte(1 + rng.IntN(255))
			touchedAuth = touchedAuth || auth.has(p)
		}
	case "truncate":
		mod = mod[:max(0, len(mod)-sc.N)]
		touchedAuth = true // a truncated hello loses its key share (last extension bytes) or is malformed
	case "keyless":
		point, sealed := c07Keyless(sc.N, sc.Client, w.Sta.WorldState.Now())
		if sc.WS {
			copy(mod[auth[0][0]:auth[0][1]], base64.StdEncoding.EncodeToString(append(point, sealed...)))
		} else {
			copy(mod[auth[0][0]:], point)
			copy(mod[auth[1][0]:], sealed[:32])
			copy(mod[auth[2][0]:], sealed[32:])
		}
		desc = fmt.Sprintf("low-order point %s in place of the ephemeral key, identity block sealed under the all-zero secret", c07LowOrder[sc.N%len(c07LowOrder)])
	}
	info, _, aerr := server.AuthFirstPacket(mod, tr, w.Sta)
	srvNow := w.Sta.WorldState.Now()
	d := time.Unix(ts, 0).Sub(srvNow)
	inWindow := d > -180*time.Second && d < 180*time.Second
	accepted := aerr == nil
	switch {
	case sc.Mod == "wrongkey":
		if accepted {
			c.Fail("auth", "accepted:wrong-server-key", "a packet encrypted to another server's key was accepted")
		}
	case sc.Mod == "keyless":
		if accepted {
			c.Fail("auth", "accepted:keyless-peer", "a first packet from a peer holding no key was accepted (%s): %+v", desc, info)
		}
		c.Probe("keyless_peer")
	case sc.Mod == "none":
		if accepted != inWindow {
			c.Fail("auth", fmt.Sprintf("window:%v", accepted), "timestamp %d, server clock %v (difference %v): accepted=%v, but the timestamp is strictly inside the 180 s window: %v", ts, srvNow.Format("15:04:05.000"), d, accepted, inWindow)
		}
		if inWindow {
			c.Probe("window_inside")
		} else {
			c.Probe("window_outside")
		}
	case touchedAuth:
		if accepted {
			c.Fail("auth", "accepted:modified-auth-field", "a first packet whose authentication payload was modified in transit was accepted: %s", desc)
		}
	default:
		if accepted {
			// flips elsewhere may go either way, but an accepted packet must yield the original identity
			if !bytes.Equal(info.UID, sc.Client.UID) || info.SessionId != sc.Client.SessionID || info.ProxyMethod != sc.Client.Method || info.Unordered != sc.Client.UDP {
				c.Fail("auth", "accepted:different-identity", "modified packet (%s) accepted with another identity: %+v", desc, info)
			}
			c.Probe("unauthenticated_region_flip_accepted")
		}
	}
}

// NewSrvKey returns a fresh X25519 public key.
func NewSrvKey(rng *rand.Rand) []byte {
	_, pub := genKeyPair(rng)
	return pub
}

func init() {
	pol := func(g *Gen) simsync.PolicyConfig { return simsync.PolicyConfig{Kind: "rtb", NetOrder: "fifo"} }
	newSc := func() any { return &C07Scenario{} }
	register(&Family{Name: "c07-bitflips", Enumerated: true, Count: c07FlipCount, Gen: genC07Flip, New: newSc, Run: runC07, Policy: pol})
	register(&Family{Name: "c07-random", Count: func(tier string) int { return map[string]int{"quick": 3000, "thorough": 100000}[tier] },
		Gen: genC07Random, New: newSc, Run: runC07, Policy: pol})
	// the authorisation half of the property, in W-srv (whole server):
	// c07-authz: handshakes of database users in every standing (credit left /
	// exhausted in one or both directions, expired, expiring during the run,
	// cap 0) judged by the admission oracle of runC15 - only authorised users
	// complete a handshake, everyone authorised and under the cap does;
	// c07-unauth-peers: valid hellos under an unknown UID or unknown proxy
	// method, damaged auth fields and replays, judged by the relay oracle of
	// runC09 - the peer is relayed to the redirect target and nothing
	// server-originated is written to it.
	swarm := func(g *Gen) simsync.PolicyConfig {
		p := SwarmPolicy(g)
		p.Stall = 0
		return p
	}
	register(&Family{Name: "c07-authz", Count: func(tier string) int { return map[string]int{"quick": 600, "thorough": 30000}[tier] },
		Gen: genC07Authz, New: func() any { return &C15Scenario{} }, Run: runC15, VirtCap: 5 * time.Minute, Policy: swarm})
	register(&Family{Name: "c07-unauth-peers", Count: func(tier string) int { return map[string]int{"quick": 400, "thorough": 20000}[tier] },
		Gen: genC07UnauthPeers, New: func() any { return &C09Scenario{} }, Run: runC09, VirtCap: 5 * time.Minute, Policy: swarm})
	plans["C07"] = []string{"c07-bitflips", "c07-random", "c07-authz", "c07-unauth-peers"}
}

func genC07Authz(g *Gen) any {
	sc := &C15Scenario{Seed: g.Rng.Uint64(), Partial: g.Bool(0.3), SrvSkewMS: int64(g.Pick(0, 0, 7200000, -7200000))}
	sc.BurstDelayS = g.Pick(0, 0, 0, 40, 100)
	nu := g.Int(1, 2)
	for u := 0; u < nu; u++ {
		// "credit left" means left for the whole run: a pinned session's own few
		// hundred bytes are charged by the once-a-minute upload during the delay
		usr := C15User{Cap: g.Pick(1, 2, 4, 0), UpCredit: int64(g.Pick(1e6, 1e7, 1e9)), DownCredit: int64(g.Pick(1e6, 1e7, 1e9)), ExpiryS: 86400, Pinned: g.Bool(0.3)}
		switch g.Int(0, 6) {
		case 0:
			usr.UpCredit = int64(g.Pick(0, -1, -1000))
		case 1:
			usr.DownCredit = int64(g.Pick(0, -1, -1000))
		case 2:
			usr.UpCredit, usr.DownCredit = int64(g.Pick(0, -1)), int64(g.Pick(0, -1))
		case 3:
			usr.ExpiryS = int64(g.Pick(-1, -3600, -86400))
		case 4:
			usr.ExpiryS = int64(g.Pick(5, 30, 50))
		}
		if usr.Pinned && usr.UpCredit > 0 && usr.DownCredit > 0 && usr.ExpiryS > 1000 && g.Bool(0.3) {
			usr.AdminZero = g.Int(1, 2) // authorised when it logged in, not any more
		}
		sc.Users = append(sc.Users, usr)
	}
	n := g.Int(1, 4)
	for i := 0; i < n; i++ {
		sc.Clients = append(sc.Clients, C15Client{User: g.Int(0, nu-1), Session: uint32(g.Pick(1, 2, 0x7fffffff)), Browser: []string{"chrome", "firefox", "safari"}[g.Rng.IntN(3)]})
	}
	for u, usr := range sc.Users {
		if usr.Pinned && g.Bool(0.5) {
			// one more connection for the pinned (idle) session, often long after the
			// user stopped being authorised and an upload round has gone by
			sc.Clients = append(sc.Clients, C15Client{User: u, Session: 0x50000000 + uint32(u), Browser: "firefox", Join: true})
			if (usr.AdminZero != 0 || usr.ExpiryS < 60) && g.Bool(0.7) {
				sc.BurstDelayS = 100
			}
		}
	}
	return sc
}

func genC07UnauthPeers(g *Gen) any {
	sc := &C09Scenario{Seed: g.Rng.Uint64(), Partial: g.Bool(0.5)}
	kinds := []string{"cloak-unauth-uid", "cloak-bad-method", "cloak-unauth-uid", "cloak-bad-method", "cloak-bad-method-live", "cloak-bad-method-live", "cloak-mutated", "cloak-replay"}
	n := g.Int(1, 2)
	for i := 0; i < n; i++ {
		sc.Peers = append(sc.Peers, genC09Peer(g, kinds[g.Rng.IntN(len(kinds))]))
	}
	if g.Bool(0.5) {
		// a bystander arriving while the refused peer is handed to a slow target
		sc.Peers = append(sc.Peers, genC09Peer(g, []string{"http-get", "random", "foreign-hello"}[g.Rng.IntN(3)]))
	}
	c09Stagger(g, sc, 0.7)
	return sc
}
