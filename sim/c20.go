package verifsim

import (
	"bytes"
	"encoding/base64"
	"encoding/binary"
	"encoding/json"
	"flag"
	"fmt"
	"io"
	"math/rand/v2"
	"net"
	"os"
	"path/filepath"
	"reflect"
	"sort"
	"strings"
	"time"

	"github.com/cbeuw/Cloak/internal/client"
	"github.com/cbeuw/Cloak/internal/common"
	"github.com/cbeuw/Cloak/internal/server"
	"github.com/cbeuw/Cloak/internal/simsync"
	"github.com/cbeuw/Cloak/internal/verifmain/ckclient"
	"github.com/cbeuw/Cloak/verifsim/simnet"
	utls "github.com/refraction-networking/utls"
)

// ---- C20: client configuration is honoured as documented, in both syntaxes ----
//
// The world is started from configuration TEXT (a JSON file or the
// semicolon-separated option string plugin hosts pass) through ParseConfig ->
// ProcessRawConfig and a harness copy of ck-client's wiring; every option is
// judged by its effect on the simulated network and clock.

type C20Opt struct {
	Key string `json:"k"`
	Val string `json:"v"` // textual value as it would appear in JSON (strings unquoted)
}

type C20Scenario struct {
	Opts    []C20Opt `json:"opts"`
	Syntax  string   `json:"syntax"`  // json | ssv
	Invalid string   `json:"invalid"` // "" or the way the configuration is broken
	Streams int      `json:"streams"`
	Seed    uint64   `json:"seed"`
	// Reprocess: the parsed configuration object was already processed once for
	// another server (a front end switching servers reassigns RemoteHost, as
	// ck-client does for -s, and processes again): the second result must be
	// that of the configuration as it now stands
	Reprocess bool `json:"reprocess,omitempty"`
}

func (sc *C20Scenario) get(k string) (string, bool) {
	for _, o := range sc.Opts {
		if o.Key == k {
			return o.Val, true
		}
	}
	return "", false
}

var c20Unquoted = map[string]bool{"NumConn": true, "StreamTimeout": true, "KeepAlive": true, "UDP": true}

func genC20(g *Gen) any {
	sc := &C20Scenario{Seed: g.Rng.Uint64(), Syntax: []string{"json", "ssv"}[g.Rng.IntN(2)], Streams: g.Int(1, 3)}
	defer func() { sc.Reprocess = sc.Seed%4 == 0 }()
	add := func(k, v string) { sc.Opts = append(sc.Opts, C20Opt{k, v}) }
	maybe := func(p float64, k string, vals ...string) {
		if g.Bool(p) {
			add(k, vals[g.Rng.IntN(len(vals))])
		}
	}
	// UID and PublicKey are filled in at run time (they depend on the server's keys): placeholders
	add("UID", "@UID")
	add("PublicKey", "@PUB")
	add("ProxyMethod", []string{"shadowsocks", "openvpn", "a-b_c.d"}[g.Rng.IntN(3)])
	add("EncryptionMethod", []string{"plain", "aes-gcm", "aes-256-gcm", "aes-128-gcm", "chacha20-poly1305", "AES-GCM", "ChaCha20-Poly1305", "PLAIN"}[g.Rng.IntN(8)])
	add("ServerName", []string{"www.bing.com", "example.org", "random", "a.very.long.name.example.com"}[g.Rng.IntN(4)])
	maybe(0.4, "AlternativeNames", "cloudflare.com,github.com", "one.example", "a.example,,b.example", ",")
	maybe(0.85, "Transport", "direct", "direct", "CDN", "cdn", "Direct")
	maybe(0.9, "NumConn", "4", "1", "2", "0", "-1", "3")
	maybe(0.7, "BrowserSig", "chrome", "firefox", "safari", "Firefox", "CHROME")
	maybe(0.5, "CDNOriginHost", "origin.example.net", "cdn-origin.test")
	// (paths with a query or an escape: README - the option is the first line of the request as written)
	maybe(0.5, "CDNWsUrlPath", "/", "/ws", "/deep/path/x", "/ws?ed=2048", "/files%2Fcloak", "/a/b?token=x%20y&v=1")
	maybe(0.6, "StreamTimeout", "300", "1", "7", "60", "1000")
	maybe(0.6, "KeepAlive", "0", "-5", "1", "15", "30", "7200")
	add("RemoteHost", "@REMOTE")
	add("RemotePort", "443")
	add("LocalHost", "10.0.7.1")
	add("LocalPort", "1984")
	if g.Bool(0.25) {
		bad := []string{"missing-UID", "missing-PublicKey", "missing-ServerName", "missing-ProxyMethod", "bad-encryption", "missing-RemoteHost", "missing-LocalPort", "malformed", "empty-file", "bad-base64", "wrong-type", "long-key", "long-key", "short-key"}
		sc.Invalid = bad[g.Rng.IntN(len(bad))]
	}
	g.Rng.Shuffle(len(sc.Opts), func(i, j int) { sc.Opts[i], sc.Opts[j] = sc.Opts[j], sc.Opts[i] })
	return sc
}

func c20RenderJSON(opts []C20Opt) string {
	var parts []string
	for _, o := range opts {
		switch {
		case o.Key == "AlternativeNames":
			names := strings.Split(o.Val, ",")
			b, _ := json.Marshal(names)
			parts = append(parts, fmt.Sprintf("%q:%s", o.Key, b))
		case c20Unquoted[o.Key]:
			parts = append(parts, fmt.Sprintf("%q:%s", o.Key, o.Val))
		default:
			parts = append(parts, fmt.Sprintf("%q:%q", o.Key, o.Val))
		}
	}
	return "{\n  " + strings.Join(parts, ",\n  ") + "\n}\n"
}

func c20RenderSSV(opts []C20Opt) string {
	esc := func(s string) string {
		s = strings.ReplaceAll(s, `\`, `\\`)
		s = strings.ReplaceAll(s, `=`, `\=`)
		s = strings.ReplaceAll(s, `;`, `\;`)
		return s
	}
	var parts []string
	for _, o := range opts {
		parts = append(parts, o.Key+"="+esc(o.Val))
	}
	return strings.Join(parts, ";")
}

// refFingerprint: cipher suites and extension types of the uTLS profile (GREASE normalised).
func refFingerprint(id utls.ClientHelloID) (suites []uint16, exts []uint16, err error) {
	uc := utls.UClient(&net.TCPConn{}, &utls.Config{ServerName: "example.com"}, id)
	if err = uc.BuildHandshakeState(); err != nil {
		return
	}
	raw := uc.HandshakeState.Hello.Raw
	rec := make([]byte, 5+len(raw))
	rec[0], rec[1], rec[2] = 22, 3, 1
	binary.BigEndian.PutUint16(rec[3:], uint16(len(raw)))
	copy(rec[5:], raw)
	ch, perr := parseClientHello(rec)
	if perr != nil {
		return nil, nil, perr
	}
	return normSuites(ch.CipherSuites), normExts(ch.Exts), nil
}

func isGrease(v uint16) bool { return v&0x0f0f == 0x0a0a && v>>8 == v&0xff }

func normSuites(s []uint16) []uint16 {
	out := make([]uint16, 0, len(s))
	for _, v := range s {
		if isGrease(v) {
			v = 0x0a0a
		}
		out = append(out, v)
	}
	return out
}

func normExts(e []HelloExt) []uint16 {
	var out []uint16
	for _, x := range e {
		v := x.Type
		if isGrease(v) {
			v = 0x0a0a
		}
		out = append(out, v)
	}
	sort.Slice(out, func(i, j int) bool { return out[i] < out[j] })
	return out
}

func runC20(c *Ctx, scAny any) {
	sc := scAny.(*C20Scenario)
	c.Net.TapOn = true
	method, _ := sc.get("ProxyMethod")
	book := map[string][]string{method: {"tcp", "10.0.0.3:8388"}, "other": {"tcp", "10.0.0.3:9999"}}
	w := NewSrvWorld(c, SrvParams{ProxyBook: book, NBypass: 1})
	defer w.Cleanup()
	transport, _ := sc.get("Transport")
	cdn := strings.EqualFold(transport, "cdn")
	// fill in the placeholders
	opts := append([]C20Opt(nil), sc.Opts...)
	for i := range opts {
		switch opts[i].Val {
		case "@UID":
			opts[i].Val = base64.StdEncoding.EncodeToString(w.Bypass[0])
		case "@PUB":
			opts[i].Val = base64.StdEncoding.EncodeToString(w.PubRaw)
		case "@REMOTE":
			opts[i].Val = "10.0.0.2"
			if cdn {
				opts[i].Val = "10.0.0.8"
			}
		}
	}
	drop := func(k string) {
		var o2 []C20Opt
		for _, o := range opts {
			if o.Key != k {
				o2 = append(o2, o)
			}
		}
		opts = o2
	}
	set := func(k, v string) {
		for i := range opts {
			if opts[i].Key == k {
				opts[i].Val = v
			}
		}
	}
	switch {
	case strings.HasPrefix(sc.Invalid, "missing-"):
		drop(strings.TrimPrefix(sc.Invalid, "missing-"))
	case sc.Invalid == "bad-encryption":
		set("EncryptionMethod", "rot13")
	case sc.Invalid == "bad-base64":
		set("UID", "!!!not base64!!!")
	case sc.Invalid == "long-key" || sc.Invalid == "short-key":
		// a public key that is not 32 bytes long: the genuine key with bytes
		// appended (33, 48 or 64 in all) or its first 31
		for i := range opts {
			if opts[i].Key == "PublicKey" {
				k, _ := base64.StdEncoding.DecodeString(opts[i].Val)
				if sc.Invalid == "short-key" {
					k = k[:min(31, len(k))]
				} else {
					k = append(k, make([]byte, []int{1, 16, 32}[sc.Seed%3])...)
				}
				opts[i].Val = base64.StdEncoding.EncodeToString(k)
			}
		}
	case sc.Invalid == "wrong-type":
		drop("NumConn")
		opts = append(opts, C20Opt{"NumConn", `"four"`})
	}
	render := func(syntax string) string {
		if syntax == "ssv" {
			return c20RenderSSV(opts)
		}
		return c20RenderJSON(opts)
	}
	parse := func(syntax string) (*client.RawConfig, error) {
		text := render(syntax)
		if sc.Invalid == "malformed" {
			text = strings.Replace(text, ":", " ", 1)
			if syntax == "ssv" {
				text = strings.Replace(render("ssv"), "=", " ", 3)
			}
		}
		if sc.Invalid == "empty-file" {
			text = ""
			syntax = "json"
		}
		if syntax == "ssv" {
			return client.ParseConfig(text)
		}
		dir := scratchDir()
		defer os.RemoveAll(dir)
		p := filepath.Join(dir, "ckclient.json")
		os.WriteFile(p, []byte(text), 0o600)
		return client.ParseConfig(p)
	}
	world := common.WorldState{Rand: rngReader{rand.New(rand.NewPCG(sc.Seed, 20))}, Now: time.Now}
	type processed struct {
		local  client.LocalConnConfig
		remote client.RemoteConnConfig
		auth   client.AuthInfo
		err    error
	}
	process := func(syntax string) (p processed) {
		defer func() {
			if r := recover(); r != nil {
				p.err = fmt.Errorf("PANIC: %v", r)
			}
		}()
		raw, err := parse(syntax)
		if err != nil {
			p.err = err
			return
		}
		if sc.Reprocess {
			host := raw.RemoteHost
			raw.RemoteHost = "198.51.100.7"
			raw.ProcessRawConfig(world)
			raw.RemoteHost = host
		}
		p.local, p.remote, p.auth, p.err = raw.ProcessRawConfig(world)
		return
	}
	main, other := process(sc.Syntax), process(map[string]string{"json": "ssv", "ssv": "json"}[sc.Syntax])
	for _, p := range []processed{main, other} {
		if p.err != nil && strings.HasPrefix(p.err.Error(), "PANIC") {
			c.Fail("config", "panic", "configuration (%s) crashed the parser: %v\n%s", sc.Invalid, p.err, render(sc.Syntax))
			return
		}
	}
	if sc.Invalid != "" {
		if sc.Invalid == "malformed" && sc.Syntax == "ssv" {
			c.Probe("invalid:ssv-malformed-tolerated")
			return // the option-string front end skips malformed options by design; what remains may or may not be complete
		}
		if main.err == nil {
			c.Fail("config", "accepted-invalid", "an invalid configuration (%s, %s syntax) was accepted:\n%s", sc.Invalid, sc.Syntax, render(sc.Syntax))
			return
		}
		c.Probe("invalid:" + sc.Invalid)
		return
	}
	if main.err != nil {
		c.Fail("config", "rejected-valid", "a valid configuration (%s syntax) was rejected: %v\n%s", sc.Syntax, main.err, render(sc.Syntax))
		return
	}
	// both syntaxes must mean the same
	if other.err != nil {
		c.Fail("config", "syntax-mismatch", "the same configuration is accepted as %s but rejected in the other syntax: %v", sc.Syntax, other.err)
		return
	}
	main.auth.WorldState, other.auth.WorldState = common.WorldState{}, common.WorldState{}
	if !reflect.DeepEqual(main.local, other.local) || !reflect.DeepEqual(main.remote, other.remote) || !reflect.DeepEqual(main.auth, other.auth) {
		c.Fail("config", "syntax-mismatch", "JSON and option-string forms of the same configuration are processed differently:\n%+v %+v\n%+v %+v", main.local, main.remote, other.local, other.remote)
		return
	}
	local, remote, auth := main.local, main.remote, main.auth
	auth.WorldState = world
	// ---- ck-client's wiring, mirrored ----
	edge := NewEdgeStub(c)
	simsync.Go("h:serve", func() { server.Serve(w.Front, w.Sta) })
	upRecv := make([]int64, 1)
	rightUp, wrongUp := 0, 0
	var snapshotKeys func()
	// the proxy server: header = upload size, download size, pause in ms; it
	// takes the upload, stays silent for the pause, then sends the download
	simsync.Go("h:upstream", func() {
		for {
			uc, err := w.Upstream[method].Accept()
			if err != nil {
				return
			}
			rightUp++
			snapshotKeys()
			simsync.Go("h:upstream-conn", func() {
				defer uc.Close()
				hdr := make([]byte, 12)
				if _, err := io.ReadFull(uc, hdr); err != nil {
					return
				}
				up, down, pause := int(binary.BigEndian.Uint32(hdr)), int(binary.BigEndian.Uint32(hdr[4:])), int(binary.BigEndian.Uint32(hdr[8:]))
				if _, err := io.ReadFull(uc, make([]byte, up)); err != nil {
					return
				}
				if pause > 0 {
					Sleep(time.Duration(pause) * time.Millisecond)
				}
				if _, err := uc.Write(make([]byte, down)); err != nil {
					return
				}
				io.Copy(io.Discard, uc)
			})
		}
	})
	startUpstream(w.Upstream["other"], upRecv, func() { wrongUp++ })
	simsync.Go("h:target", func() {
		for {
			tc, err := w.Redir.Accept()
			if err != nil {
				return
			}
			tc.Close()
		}
	})
	// ---- the real ck-client main() (cmd/ck-client, made importable by the
	// instrumenter): flags, configuration, dialer and session maker are the
	// shipped wiring; only net.Listen, the net.Dialer and log.Fatal are hooked
	progExit := ""
	seenKeys := map[[32]byte]bool{}
	listening := false
	awaitListener := func() {
		for !listening && progExit == "" {
			Sleep(time.Millisecond)
		}
	}
	sessionIDs := map[uint32]bool{}
	snapshotKeys = func() {
		for _, u := range w.Sta.Panel.VerifUsers() {
			for id, s := range u.Sessions {
				seenKeys[s.GetSessionKey()] = true
				sessionIDs[id] = true
			}
		}
	}
	simsync.HookDialer = func(nd *net.Dialer) simsync.Dialer {
		return &simnet.Dialer{Net: c.Net, LocalIP: "10.0.6.1", Tag: "front", KeepAlive: nd.KeepAlive}
	}
	simsync.HookListen = func(network, addr string) (net.Listener, error) {
		if network != "tcp" {
			return nil, fmt.Errorf("unexpected network %q", network)
		}
		l := c.Net.Listen(addr)
		listening = true
		return l, nil
	}
	simsync.HookListenUDP = func(network string, la *net.UDPAddr) (net.PacketConn, error) {
		if v, _ := sc.get("UDP"); v != "true" {
			c.Fail("config", "udp-unasked", "ck-client listens for UDP on %v although neither the configuration nor the command line (%v) asks for it", la, os.Args)
		}
		return c.Net.NewPacketSock(la.String()), nil
	}
	// a third of the runs give the server address and the proxy method on the
	// command line (-s, -proxy) while the configuration text names another host
	// and another method: command-line arguments take precedence
	progOpts := append([]C20Opt(nil), opts...)
	var extraArgs []string
	// a fifth of the runs start ck-client the way Shadowsocks starts a plugin:
	// no command line, the options in SS_PLUGIN_OPTIONS, the four addresses in
	// SS_LOCAL_HOST/PORT and SS_REMOTE_HOST/PORT - used where the options leave
	// them out (variant a), overridden by the options where both say something
	// (variant b: the environment then holds wrong values); ProxyMethod defaults
	// to shadowsocks
	pluginMode := (sc.Seed>>16)%5 == 0
	if !pluginMode && sc.Seed%3 == 1 {
		for i := range progOpts {
			switch progOpts[i].Key {
			case "RemoteHost":
				extraArgs = append(extraArgs, "-s", progOpts[i].Val)
				progOpts[i].Val = "198.51.100.9"
			case "ProxyMethod":
				extraArgs = append(extraArgs, "-proxy", progOpts[i].Val)
				progOpts[i].Val = "other"
			}
		}
	}
	// likewise -p, -l and -i (one of them in three quarters of the runs): the
	// command line carries the configured value - for the ports that is the
	// flag's own default, 443 and 1984 - while the configuration text says
	// something else; and -u=false over a text that asks for UDP
	setOpt := func(key, wrong string) (string, bool) {
		for i := range progOpts {
			if progOpts[i].Key == key {
				v := progOpts[i].Val
				progOpts[i].Val = wrong
				return v, true
			}
		}
		return "", false
	}
	flagSel := (sc.Seed >> 8) % 4
	if pluginMode {
		flagSel = 0
	}
	switch flagSel {
	case 1:
		if v, ok := setOpt("RemotePort", "8443"); ok {
			extraArgs = append(extraArgs, "-p", v)
		}
	case 2:
		if v, ok := setOpt("LocalPort", "1999"); ok {
			extraArgs = append(extraArgs, "-l", v)
		}
	case 3:
		if v, ok := setOpt("LocalHost", "10.0.7.9"); ok {
			extraArgs = append(extraArgs, "-i", v)
		}
	}
	if _, has := sc.get("UDP"); !has && !pluginMode && (sc.Seed>>12)%4 == 0 {
		progOpts = append(progOpts, C20Opt{Key: "UDP", Val: "true"})
		extraArgs = append(extraArgs, "-u=false")
	}
	pluginEnv := map[string]string{}
	defer func() {
		for _, k := range []string{"SS_LOCAL_HOST", "SS_LOCAL_PORT", "SS_REMOTE_HOST", "SS_REMOTE_PORT", "SS_PLUGIN_OPTIONS"} {
			os.Unsetenv(k)
		}
	}()
	if pluginMode {
		envOf := map[string]string{"LocalHost": "SS_LOCAL_HOST", "LocalPort": "SS_LOCAL_PORT", "RemoteHost": "SS_REMOTE_HOST", "RemotePort": "SS_REMOTE_PORT"}
		wrong := map[string]string{"LocalHost": "10.0.7.9", "LocalPort": "1999", "RemoteHost": "198.51.100.9", "RemotePort": "8443"}
		var kept []C20Opt
		for _, o := range progOpts {
			if env, ok := envOf[o.Key]; ok {
				if (sc.Seed>>20)%2 == 0 {
					pluginEnv[env] = o.Val // (a) only the environment says it
					continue
				}
				pluginEnv[env] = wrong[o.Key] // (b) the options win over the environment
			}
			if o.Key == "ProxyMethod" && o.Val == "shadowsocks" && (sc.Seed>>21)%2 == 0 {
				continue
			}
			kept = append(kept, o)
		}
		progOpts = kept
		if pluginEnv["SS_LOCAL_HOST"] == "" {
			pluginMode = false // (cannot be expressed: plugin mode is recognised by SS_LOCAL_HOST)
			progOpts = append([]C20Opt(nil), opts...)
			pluginEnv = map[string]string{}
		}
	}
	cfgArg := c20RenderSSV(progOpts)
	if sc.Syntax == "json" {
		dir := scratchDir()
		defer os.RemoveAll(dir)
		cfgArg = filepath.Join(dir, "ckclient.json")
		os.WriteFile(cfgArg, []byte(c20RenderJSON(progOpts)), 0o600)
	}
	simsync.Go("h:ck-client", func() {
		defer func() {
			if r := recover(); r != nil {
				fe, ok := r.(simsync.FatalExit)
				if !ok {
					panic(r)
				}
				progExit = fe.Msg
			}
		}()
		os.Args = append([]string{"ck-client", "-c", cfgArg, "-verbosity", "panic"}, extraArgs...)
		if pluginMode {
			os.Args = []string{"ck-client", "-verbosity", "panic"}
			pluginEnv["SS_PLUGIN_OPTIONS"] = cfgArg
			for k, v := range pluginEnv {
				os.Setenv(k, v)
			}
			c.Probe("plugin_mode")
		}
		flag.CommandLine = flag.NewFlagSet("ck-client", flag.ContinueOnError)
		ckclient.Main()
	})
	// proxy client application
	// a handshake that fails once (one-connection-per-stream mode, direct
	// transport): the first transport connection is reset right after the hello;
	// that connection's retry may fall back to another signature (a documented
	// compatibility measure), every later session must follow the configuration
	// again. The first proxied connection runs alone so that the reset
	// connection and its retry are transport connections 0 and 1.
	nconn := 0
	if v, ok := sc.get("NumConn"); ok {
		fmt.Sscanf(v, "%d", &nconn)
	}
	handshakeFault := sc.Seed%5 == 2 && !cdn && nconn <= 0 && sc.Streams >= 2
	if handshakeFault {
		seen := 0
		c.Net.OnLink = func(l *simnet.Link) {
			if l.Tag == "front" || l.Name == "front" {
				if seen == 0 {
					l.Script = append(l.Script, simnet.ScriptedFault{Dir: 0, AfterWrite: 1, Kind: "reset"})
				}
				seen++
			}
		}
	}
	firstDone := false
	pending := sc.Streams
	for i := 0; i < sc.Streams; i++ {
		i := i
		simsync.Go("h:app", func() {
			defer func() { pending-- }()
			if i == 0 {
				defer func() { firstDone = true }()
			}
			awaitListener()
			for handshakeFault && i > 0 && !firstDone {
				Sleep(50 * time.Millisecond)
			}
			ad := &simnet.Dialer{Net: c.Net, LocalIP: "10.0.7.2", Tag: "app"}
			conn, err := ad.Dial("tcp", local.LocalAddr)
			if err != nil {
				c.Fail("traffic", "dial-local", "%v", err)
				return
			}
			hdr := make([]byte, 12)
			binary.BigEndian.PutUint32(hdr, 3000)
			binary.BigEndian.PutUint32(hdr[4:], 5000)
			if i == sc.Streams-1 && sc.Seed%4 == 3 {
				// a long-lived connection: its download only starts when the
				// connection is older than StreamTimeout ("Cloak will not enforce any
				// timeout on TCP connections after it is established")
				to := 300
				if v, ok := sc.get("StreamTimeout"); ok {
					if n := 0; true {
						fmt.Sscanf(v, "%d", &n)
						if n != 0 {
							to = n
						}
					}
				}
				binary.BigEndian.PutUint32(hdr[8:], uint32(to*1000+1500))
				c.Probe("long_lived_connection")
			}
			conn.Write(hdr)
			conn.Write(make([]byte, 3000))
			buf := make([]byte, 8192)
			for got := 0; got < 5000; {
				n, err := conn.Read(buf)
				got += n
				if err != nil {
					c.Fail("traffic", "relay", "proxy client read %d of 5000 bytes: %v", got, err)
					return
				}
			}
			conn.Close()
		})
	}
	// a silent local connection: closed by Cloak after StreamTimeout
	var silentClosedAt time.Duration
	silentDone := false
	simsync.Go("h:silent", func() {
		defer func() { silentDone = true }()
		awaitListener()
		for handshakeFault && !firstDone {
			Sleep(50 * time.Millisecond)
		}
		ad := &simnet.Dialer{Net: c.Net, LocalIP: "10.0.7.3", Tag: "app"}
		conn, err := ad.Dial("tcp", local.LocalAddr)
		if err != nil {
			return
		}
		start := time.Now()
		buf := make([]byte, 16)
		conn.Read(buf)
		silentClosedAt = time.Since(start)
	})
	end := c.Drive(func() bool { return pending == 0 && silentDone })
	if c.Failed() {
		return
	}
	if end != simsync.EndDone {
		if end == simsync.EndQuiescent {
			c.Fail("config", "not-working", "the configured client never relayed the proxy traffic (pending %d, silent connection closed: %v, ck-client exit: %q)\n%s", pending, silentDone, progExit, c.W.DumpTasks())
		}
		return
	}
	// ---- the table transcribed from README.md ----
	front := frontLinks(c)
	// NumConn
	nc := 0
	if v, ok := sc.get("NumConn"); ok {
		fmt.Sscanf(v, "%d", &nc)
	}
	if nc <= 0 {
		// one short-lived session (one connection) per proxied connection (+1 for the silent one: no session is made for it before data arrives... it is made: RouteTCP creates the session first in singleplex mode)
		if !remote.Singleplex {
			c.Fail("config", "numconn", "NumConn=%d must select one-connection-per-stream mode", nc)
			return
		}
		if len(front) < sc.Streams {
			c.Fail("config", "numconn", "NumConn=%d (no multiplexing): %d proxied connections used %d transport connections", nc, sc.Streams, len(front))
			return
		}
	} else {
		snapshotKeys()
		sessions := len(sessionIDs)
		if sessions != 1 || len(front) != nc {
			c.Fail("config", "numconn", "NumConn=%d: %d sessions with %d transport connections in total were made for %d proxied connections (want one session of %d)", nc, sessions, len(front), sc.Streams, nc)
			return
		}
	}
	// StreamTimeout
	wantTO := 300 * time.Second
	if v, ok := sc.get("StreamTimeout"); ok {
		n := 0
		fmt.Sscanf(v, "%d", &n)
		if n != 0 {
			wantTO = time.Duration(n) * time.Second
		}
	}
	if d := silentClosedAt - wantTO; d < -time.Millisecond || d > time.Second {
		c.Fail("config", "stream-timeout", "StreamTimeout: a silent proxied connection was closed after %v, configured %v", silentClosedAt, wantTO)
		return
	}
	// KeepAlive: the period the dialer asks the OS for
	ka := 0
	if v, ok := sc.get("KeepAlive"); ok {
		fmt.Sscanf(v, "%d", &ka)
	}
	for _, l := range front {
		got := l.KeepAlivePeriod()
		want := time.Duration(ka) * time.Second
		if ka <= 0 {
			want = 0 // disabled
		}
		if got != want {
			c.Fail("config", "keepalive", "KeepAlive=%d: the transport connection's keep-alive period is %v (0 = disabled), documented %v", ka, got, want)
			return
		}
	}
	// Transport, server names, browser signature
	names := []string{}
	if v, ok := sc.get("AlternativeNames"); ok {
		for _, n := range strings.Split(v, ",") {
			if n != "" {
				names = append(names, n)
			}
		}
	}
	sn, _ := sc.get("ServerName")
	names = append(names, sn)
	okName := func(got string) bool {
		for _, n := range names {
			if n == got || strings.EqualFold(n, "random") && !cdn && validHost(got) {
				return true
			}
		}
		return false
	}
	if cdn {
		if edge.Conns != len(front) || edge.Conns == 0 {
			c.Fail("config", "transport", "Transport=CDN: %d of %d transport connections went through the edge", edge.Conns, len(front))
			return
		}
		for i, p := range edge.Plain {
			cp := ClientParams{}
			cp.CDNOriginHost, _ = sc.get("CDNOriginHost")
			cp.CDNWsUrlPath, _ = sc.get("CDNWsUrlPath")
			if msg := checkEdgeRequest(p, cp); msg != "" {
				c.Fail("config", "cdn-options", "connection %d through the edge: %s", i, msg)
				return
			}
		}
		for _, s := range edge.SNI {
			if !okName(s) {
				c.Fail("config", "server-name", "server name %q on the wire is none of the configured %q", s, names)
				return
			}
		}
	} else {
		if edge.Conns != 0 {
			c.Fail("config", "transport", "Transport=direct: %d connections went to the CDN edge", edge.Conns)
			return
		}
		sig := "chrome"
		if v, ok := sc.get("BrowserSig"); ok {
			sig = strings.ToLower(v)
		}
		id := map[string]utls.ClientHelloID{"chrome": utls.HelloChrome_Auto, "firefox": utls.HelloFirefox_Auto, "safari": utls.HelloSafari_Auto}[sig]
		wantSuites, wantExts, err := refFingerprint(id)
		if err != nil {
			c.Fail("setup", "utls", "%v", err)
			return
		}
		for i, l := range front {
			up := l.Dir[0].TapBuf
			recs, _ := parseRecords(up)
			if len(recs) == 0 {
				continue
			}
			ch, err := parseClientHello(up[:5+len(recs[0].Body)])
			if err != nil {
				c.Fail("config", "transport", "Transport=direct: connection %d does not start with a ClientHello: %v", i, err)
				return
			}
			if !okName(ch.SNI) {
				c.Fail("config", "server-name", "server name %q on the wire is none of the configured %q", ch.SNI, names)
				return
			}
			if handshakeFault && i == 1 {
				c.Probe("handshake_retry_after_fault")
				continue // the retry of the reset connection: the fallback signature is allowed
			}
			if !reflect.DeepEqual(normSuites(ch.CipherSuites), wantSuites) || !reflect.DeepEqual(normExts(ch.Exts), wantExts) {
				c.Fail("config", "browser-sig", "BrowserSig=%s: the hello's cipher suites/extensions are not those of the %s profile", sig, sig)
				return
			}
		}
	}
	// EncryptionMethod and ProxyMethod as the server sees them
	if wrongUp > 0 || rightUp == 0 {
		c.Fail("config", "proxy-method", "ProxyMethod=%s: %d connections reached its upstream, %d another one", method, rightUp, wrongUp)
		return
	}
	enc, _ := sc.get("EncryptionMethod")
	em := map[string]byte{"plain": 0, "aes-gcm": 1, "aes-256-gcm": 1, "aes-128-gcm": 3, "chacha20-poly1305": 2}[strings.ToLower(enc)]
	for _, u := range w.Sta.Panel.VerifUsers() {
		for _, s := range u.Sessions {
			if s.Unordered {
				c.Fail("config", "udp-flag", "UDP not configured but the server's session is unordered")
				return
			}
		}
	}
	if !cdn && len(seenKeys) > 0 {
		// frames on the wire decode under (that session's key, the configured method)
		ok := false
		for k := range seenKeys {
			codec, _ := NewRefCodec(em, k)
			for _, l := range front {
				recs, _ := parseRecords(l.Dir[0].TapBuf)
				if len(recs) > 1 {
					if _, err := codec.Decode(recs[1].Body); err == nil {
						ok = true
					}
				}
			}
		}
		if !ok {
			c.Fail("config", "encryption-method", "EncryptionMethod=%s: no frame on the wire decodes under the configured method", enc)
			return
		}
	}
	_ = bytes.Equal
	c.Probe("honoured:" + sc.Syntax)
}

func init() {
	register(&Family{Name: "c20-config", Count: func(tier string) int { return map[string]int{"quick": 1200, "thorough": 40000}[tier] },
		Gen: genC20, New: func() any { return &C20Scenario{} }, Run: runC20, VirtCap: 30 * time.Minute, MaxSteps: 600000,
		Policy: func(g *Gen) simsync.PolicyConfig {
			p := SwarmPolicy(g)
			p.Stall = 0
			return p
		}})
	plans["C20"] = []string{"c20-config"}
}
