package verifsim

import (
	"fmt"
	"time"

	"github.com/cbeuw/Cloak/internal/simsync"
)

// ---- C13, stream churn with frames in flight ----
//
// Dozens of short streams are opened, answered and closed - many of them
// actively by the accepting side while frames of the opener are still in
// flight on a stalled connection - so that the session goes idle with a long
// history of closed streams behind it; the stalled frames arrive afterwards.
// The accepting side answers every stream Accept hands out. Oracle: the
// records each endpoint put on the wire, decoded by the reference codec, never
// repeat a (stream id, sequence number) pair under the session key (that pair
// is the AEAD nonce).

type C13ChurnScenario struct {
	Sess    SessParams `json:"sess"`
	NStream int        `json:"nstream"`
	// per stream: number of small writes by the opener, and who closes first
	Writes      []int  `json:"writes"`
	ServerClose []bool `json:"server_close"`
	Batch       int    `json:"batch"` // streams opened concurrently
}

func genC13Churn(g *Gen) any {
	sc := &C13ChurnScenario{NStream: g.Int(17, 48), Batch: g.Pick(1, 4, 16)}
	sc.Sess = SessParams{Method: byte(g.Int(0, 3)), NConn: g.Int(2, 4), InactS: 3600, Partial: g.Bool(0.3)}
	sc.Sess.Stalls = []StallPlan{{Link: g.Int(0, sc.Sess.NConn-1), Dir: 0, DurMS: g.Pick(2000, 5000)}}
	for i := 0; i < sc.NStream; i++ {
		sc.Writes = append(sc.Writes, g.Int(1, 4))
		sc.ServerClose = append(sc.ServerClose, g.Bool(0.7))
	}
	return sc
}

func runC13Churn(c *Ctx, scAny any) {
	sc := scAny.(*C13ChurnScenario)
	c.Net.TapOn = true
	sw := NewSessWorld(c, sc.Sess, nil, nil)
	accepted := 0
	simsync.Go("h:accept", func() {
		for {
			conn, err := sw.S.Accept()
			if err != nil {
				return
			}
			accepted++
			n := accepted
			simsync.Go("h:answer", func() {
				// answer at once (the first frame of this stream in this direction), then
				// either close actively or serve until the opener closes
				if _, err := conn.Write([]byte{0xA5, byte(n)}); err != nil {
					return
				}
				if n-1 < len(sc.ServerClose) && sc.ServerClose[n-1] {
					conn.Close()
					return
				}
				buf := make([]byte, 4096)
				for {
					if _, err := conn.Read(buf); err != nil {
						conn.Close()
						return
					}
				}
			})
		}
	})
	opened := 0
	running := 0
	openOne := func(i int) {
		defer func() { running-- }()
		st, err := sw.C.OpenStream()
		if err != nil {
			c.Fail("setup", "error:open", "OpenStream: %v", err)
			return
		}
		for k := 0; k < sc.Writes[i]; k++ {
			if _, err := st.Write([]byte{0x5A, byte(i), byte(k), 1, 2, 3, 4, 5}); err != nil {
				break // closed by the peer meanwhile
			}
		}
		// wait for the answer (or the end of the stream), then close this side
		buf := make([]byte, 64)
		st.SetReadDeadline(time.Now().Add(20 * time.Second))
		st.Read(buf)
		st.Close()
	}
	simsync.Go("h:opener", func() {
		for opened < sc.NStream {
			for b := 0; b < sc.Batch && opened < sc.NStream; b++ {
				i := opened
				opened++
				running++
				simsync.Go("h:stream", func() { openOne(i) })
			}
			for running > 0 {
				Sleep(time.Millisecond)
			}
		}
	})
	end := c.Drive(func() bool { return false })
	if c.Failed() || end != simsync.EndQuiescent {
		return
	}
	codec, err := NewRefCodec(sc.Sess.Method, sw.Key)
	if err != nil {
		c.Fail("setup", "codec", "%v", err)
		return
	}
	for side := 0; side < 2; side++ {
		seen := map[[2]uint64]int{}
		for li, l := range sw.Links {
			recs, _, rest := splitRecords(l.Dir[side].TapBuf)
			if rest != 0 {
				c.Fail("wire-format", "tap:partial-record", "link %d dir %d: %d trailing bytes", li, side, rest)
				return
			}
			for i, r := range recs {
				fr, err := codec.Decode(r)
				if err != nil {
					c.Fail("wire-format", "tap:undecodable", "link %d dir %d record %d: %v", li, side, i, err)
					return
				}
				k := [2]uint64{uint64(fr.StreamID), fr.Seq}
				seen[k]++
				if seen[k] > 1 {
					c.Fail("seq", "seq:reused", "%s put (stream %d, sequence number %d) on the wire twice under one session key (after %d streams had been opened and closed, %d handed out by Accept): the pair is the AEAD nonce", []string{"the client", "the server"}[side], fr.StreamID, fr.Seq, sc.NStream, accepted)
					return
				}
			}
		}
	}
	if accepted > sc.NStream {
		c.Probe("accept_handed_out_more_streams_than_opened")
	}
	c.Probe(fmt.Sprintf("churn_streams_%d", sc.NStream/8*8))
}

func init() {
	register(&Family{Name: "c13-churn", Count: func(tier string) int { return map[string]int{"quick": 600, "thorough": 30000}[tier] },
		Gen: genC13Churn, New: func() any { return &C13ChurnScenario{} }, Run: runC13Churn, VirtCap: 5 * time.Minute,
		Policy: func(g *Gen) simsync.PolicyConfig {
			p := SwarmPolicy(g)
			p.Stall = 0
			return p
		}})
	plans["C13"] = append(plans["C13"], "c13-churn")
}
