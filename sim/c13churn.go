package verifsim

import (
	"fmt"
	"os"
	"strings"
	"time"

	mux "github.com/cbeuw/Cloak/internal/multiplex"
	"github.com/cbeuw/Cloak/internal/simsync"
)

// ---- C13, stream churn with frames in flight ----
//
// Dozens of short streams are opened, answered and closed - many of them
// actively by the accepting side while frames of the opener are still in
// flight on a stalled connection - so that the session goes idle with a long
// history of closed streams behind it; the stalled frames arrive afterwards.
// The accepting side answers every stream Accept hands out. Oracle: the
// records each endpoint put on the wire, decoded by the reference codec, never
// repeat a (stream id, sequence number) pair under the session key (that pair
// is the AEAD nonce).

type C13ChurnScenario struct {
	Sess    SessParams `json:"sess"`
	NStream int        `json:"nstream"`
	// per stream: number of small writes by the opener, and who closes first
	Writes      []int  `json:"writes"`
	ServerClose []bool `json:"server_close"`
	Batch       int    `json:"batch"` // streams opened concurrently
	// LongLived: the first stream stays open while all the others come and go;
	// the accepting side sends it late frames that sit on a stalled connection;
	// the opener then closes it, opens one more stream, and the late frames arrive
	LongLived bool `json:"long_lived,omitempty"`
	// AcceptStall: the accepting application is busy (a slow dial in its accept
	// loop) while more streams than its backlog holds (1024) are opened and
	// written to; it resumes once every opener has written
	AcceptStall bool `json:"accept_stall,omitempty"`
	// CloseTwice: when everything is over, two tasks close the opener's session
	// at the same time (an explicit close racing a timer, a termination, ...)
	CloseTwice bool `json:"close_twice,omitempty"`
}

func genC13Churn(g *Gen) any {
	sc := &C13ChurnScenario{NStream: g.Pick(g.Int(17, 48), g.Int(17, 48), g.Int(66, 110)), Batch: g.Pick(1, 4, 16)}
	sc.Sess = SessParams{Method: byte(g.Int(0, 3)), NConn: g.Int(2, 4), InactS: 3600, Partial: g.Bool(0.3)}
	sc.Sess.Stalls = []StallPlan{{Link: g.Int(0, sc.Sess.NConn-1), Dir: 0, DurMS: g.Pick(2000, 5000)}}
	if g.Bool(0.35) {
		sc.LongLived = true
	}
	if g.Bool(0.012) {
		// (a dozen seconds of wall clock each: few of them; the streams beyond the
		// backlog are opened one after the other)
		sc.AcceptStall, sc.LongLived = true, false
		sc.Sess.Stalls = nil // both connections deliver while the backlog fills
		sc.NStream, sc.Batch = g.Int(1028, 1045), 64
	}
	sc.CloseTwice = !sc.LongLived && g.Bool(0.4)
	for i := 0; i < sc.NStream; i++ {
		if sc.AcceptStall {
			// (the frames of one stream travel on different connections)
			sc.Writes = append(sc.Writes, g.Int(2, 4))
			// (the streams that merely fill the backlog are closed by the accepting
			// side, and their openers do not wait: a thousand parked tasks make every
			// scheduler step slow)
			sc.ServerClose = append(sc.ServerClose, i < 1020 || g.Bool(0.7))
			continue
		}
		sc.Writes = append(sc.Writes, g.Int(1, 4))
		sc.ServerClose = append(sc.ServerClose, g.Bool(0.7))
	}
	return sc
}

func runC13Churn(c *Ctx, scAny any) {
	sc := scAny.(*C13ChurnScenario)
	c.Net.TapOn = true
	sw := NewSessWorld(c, sc.Sess, nil, nil)
	accepted := 0
	churnDone, lateWritten := false, false
	written := 0
	simsync.Go("h:accept", func() {
		for sc.AcceptStall && written < sc.NStream && !c.Failed() {
			Sleep(10 * time.Millisecond)
		}
		if sc.AcceptStall {
			Sleep(10 * time.Second) // beyond the stall: whatever was in flight has arrived
			open, _ := sw.S.VerifStreamTable()
			c.Probe(fmt.Sprintf("accept_resumed_with_%d_streams_pending", open/64*64))
			if os.Getenv("VERIF_DEBUG_C13") != "" {
				for _, l := range strings.Split(c.W.DumpTasks(), "\n") {
					if strings.Contains(l, "switchboard") || strings.Contains(l, "session") {
						fmt.Fprintln(os.Stderr, l)
					}
				}
			}
		}
		for {
			conn, err := sw.S.Accept()
			if err != nil {
				return
			}
			accepted++
			n := accepted
			simsync.Go("h:answer", func() {
				// answer at once (the first frame of this stream in this direction), then
				// either close actively or serve until the opener closes
				if _, err := conn.Write([]byte{0xA5, byte(n)}); err != nil {
					return
				}
				if sc.LongLived && conn.(*mux.Stream).VerifID() == 1 {
					// the long-lived stream: late frames, some of which sit on the stalled
					// connection while the opener closes the stream
					for !churnDone {
						Sleep(50 * time.Millisecond)
					}
					// everything towards the opener is held up for three seconds from now on
					for _, l := range sw.Links {
						c.Net.Stall(l.Dir[1], 3*time.Second)
					}
					for k := 0; k < 8; k++ {
						if _, err := conn.Write([]byte{0xA6, byte(k), 1, 2, 3}); err != nil {
							break
						}
					}
					lateWritten = true
					buf := make([]byte, 4096)
					for {
						if _, err := conn.Read(buf); err != nil {
							conn.Close()
							return
						}
					}
				}
				if n-1 < len(sc.ServerClose) && sc.ServerClose[n-1] {
					conn.Close()
					return
				}
				buf := make([]byte, 4096)
				for {
					if _, err := conn.Read(buf); err != nil {
						conn.Close()
						return
					}
				}
			})
		}
	})
	opened := 0
	running := 0
	openOne := func(i int) {
		defer func() { running-- }()
		st, err := sw.C.OpenStream()
		if err != nil {
			c.Fail("setup", "error:open", "OpenStream: %v", err)
			return
		}
		for k := 0; k < sc.Writes[i]; k++ {
			if _, err := st.Write([]byte{0x5A, byte(i), byte(k), 1, 2, 3, 4, 5}); err != nil {
				break // closed by the peer meanwhile
			}
		}
		written++
		if sc.AcceptStall && i < 1020 {
			return // answered and closed by the accepting side once it is back
		}
		// wait for the answer (or the end of the stream), then close this side
		buf := make([]byte, 64)
		if sc.AcceptStall {
			st.SetReadDeadline(time.Now().Add(200 * time.Second))
		} else {
			st.SetReadDeadline(time.Now().Add(20 * time.Second))
		}
		st.Read(buf)
		st.Close()
	}
	longDone := !sc.LongLived
	simsync.Go("h:opener", func() {
		var long *mux.Stream
		if sc.LongLived {
			st, err := sw.C.OpenStream()
			if err != nil {
				c.Fail("setup", "error:open", "OpenStream: %v", err)
				return
			}
			long = st
			long.Write([]byte{0x77, 0, 0, 0})
			defer func() {
				// every other stream has come and gone: the accepting side now sends its
				// late frames (held up on the way); close the long-lived stream, open
				// one more, and let them arrive
				churnDone = true
				for !lateWritten {
					Sleep(50 * time.Millisecond)
				}
				long.Close()
				if st, err := sw.C.OpenStream(); err == nil {
					st.Write([]byte{0x78, 1, 2, 3})
					buf := make([]byte, 64)
					st.SetReadDeadline(time.Now().Add(20 * time.Second))
					st.Read(buf)
					st.Close()
				}
				longDone = true
			}()
		}
		for opened < sc.NStream {
			for b := 0; b < sc.Batch && opened < sc.NStream && !(sc.AcceptStall && opened >= 1020 && b > 0); b++ {
				i := opened
				opened++
				running++
				simsync.Go("h:stream", func() { openOne(i) })
			}
			for running > 0 && !(sc.AcceptStall && written == opened) {
				Sleep(25 * time.Millisecond)
			}
		}
		if sc.CloseTwice {
			for running > 0 {
				Sleep(25 * time.Millisecond)
			}
			simsync.Go("h:close-a", func() { sw.C.Close() })
			simsync.Go("h:close-b", func() { sw.C.Close() })
		}
	})
	end := c.Drive(func() bool { return false })
	if c.Failed() || end != simsync.EndQuiescent {
		return
	}
	codec, err := NewRefCodec(sc.Sess.Method, sw.Key)
	if err != nil {
		c.Fail("setup", "codec", "%v", err)
		return
	}
	for side := 0; side < 2; side++ {
		seen := map[[2]uint64]int{}
		for li, l := range sw.Links {
			recs, _, rest := splitRecords(l.Dir[side].TapBuf)
			if rest != 0 {
				c.Fail("wire-format", "tap:partial-record", "link %d dir %d: %d trailing bytes", li, side, rest)
				return
			}
			for i, r := range recs {
				fr, err := codec.Decode(r)
				if err != nil {
					c.Fail("wire-format", "tap:undecodable", "link %d dir %d record %d: %v", li, side, i, err)
					return
				}
				k := [2]uint64{uint64(fr.StreamID), fr.Seq}
				seen[k]++
				if seen[k] > 1 {
					c.Fail("seq", "seq:reused", "%s put (stream %d, sequence number %d) on the wire twice under one session key (after %d streams had been opened and closed, %d handed out by Accept): the pair is the AEAD nonce", []string{"the client", "the server"}[side], fr.StreamID, fr.Seq, sc.NStream, accepted)
					return
				}
			}
		}
	}
	// C12: at this quiescent moment the count of active streams equals the number
	// of open streams, on both sides (every stream of this workload was closed)
	for side, sesh := range []*mux.Session{sw.C, sw.S} {
		open, _, cnt, closed := sesh.VerifDigest()
		nOpen := 0
		for _, s := range open {
			if !s.Closed {
				nOpen++
			}
		}
		if !closed && (int(cnt) != nOpen || nOpen != 0) {
			c.Fail("count", "count:mismatch", "%s session at final quiescence: %d streams counted active, %d open in its table, although every stream anybody opened was closed (%d streams were opened and closed, the accepting side was handed %d)", []string{"client", "server"}[side], cnt, nOpen, sc.NStream, accepted)
			return
		}
	}
	_ = longDone
	if accepted > sc.NStream+2 {
		c.Probe("accept_handed_out_more_streams_than_opened")
	}
	c.Probe(fmt.Sprintf("churn_streams_%d", sc.NStream/8*8))
}

func init() {
	register(&Family{Name: "c13-churn", Count: func(tier string) int { return map[string]int{"quick": 600, "thorough": 30000}[tier] },
		Gen: genC13Churn, New: func() any { return &C13ChurnScenario{} }, Run: runC13Churn, VirtCap: 5 * time.Minute, MaxSteps: 8000000,
		Policy: func(g *Gen) simsync.PolicyConfig {
			p := SwarmPolicy(g)
			p.Stall = 0
			return p
		}})
	plans["C13"] = append(plans["C13"], "c13-churn")
	// C12: stream-table / open-count equality after long histories of streams
	plans["C12"] = append(plans["C12"], "c13-churn")
}
