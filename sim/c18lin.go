package verifsim

import (
	"bytes"
	"encoding/base64"
	"encoding/json"
	"fmt"
	"net/http"
	"net/http/httptest"
	"time"

	"github.com/anishathalye/porcupine"

	mux "github.com/cbeuw/Cloak/internal/multiplex"
	"github.com/cbeuw/Cloak/internal/server/usermanager"
	"github.com/cbeuw/Cloak/internal/simsync"
)

// ---- C18/C16, concurrent: the user database as a linearizable keyed store ----
//
// 1..3 admin clients (the real APIRouter: POST with any subset of fields, GET,
// DELETE) and 1..2 usage uploaders (UploadStatus with non-zero usage, as
// commitUpdate issues it) work on two UIDs at the same time, under
// statement-level schedules of the manager and handler code (database
// transaction callbacks are atomic: bbolt serialises writers and gives
// readers a snapshot). Every operation is recorded with invoke / return
// stamps from one global event counter; the history is checked with porcupine
// against the sequential reference store: an acknowledged admin write is never
// overwritten by an upload that read before it, usage is deducted exactly
// once, a read returns what some serial order of the completed and in-flight
// operations implies.

type C18LinOp struct {
	Kind   string   `json:"kind"` // post | get | delete | upload
	User   int      `json:"user"`
	Mask   int      `json:"mask,omitempty"`
	Values [6]int64 `json:"values,omitempty"`
	// upload: usage of user 0 and user 1 in this round (0,0 = not in the batch)
	Up   [2]int64 `json:"up,omitempty"`
	Down [2]int64 `json:"down,omitempty"`
}

type C18LinScenario struct {
	Clients [][]C18LinOp `json:"clients"`
	Seed    uint64       `json:"seed"`
}

func genC18Lin(g *Gen) any {
	sc := &C18LinScenario{Seed: g.Rng.Uint64()}
	// both users exist from the start in most runs (first client creates them)
	var setup []C18LinOp
	for u := 0; u < 2; u++ {
		if g.Bool(0.85) {
			setup = append(setup, C18LinOp{Kind: "post", User: u, Mask: 63, Values: [6]int64{int64(g.Int(1, 4)), 1e6, 1e6, int64(g.Int(1000, 100000)), int64(g.Int(1000, 100000)), 4102444800}})
		}
	}
	nadmin, nup := g.Int(1, 3), g.Int(1, 2)
	for a := 0; a < nadmin; a++ {
		var ops []C18LinOp
		if a == 0 {
			ops = append(ops, setup...)
		}
		for i := 0; i < g.Int(1, 5); i++ {
			op := C18LinOp{Kind: []string{"post", "post", "get", "get", "delete"}[g.Rng.IntN(5)], User: g.Int(0, 1)}
			op.Mask = g.Pick(8, 16, 24, 63, g.Int(1, 63)) // credits most often
			for f := 0; f < 6; f++ {
				op.Values[f] = int64(g.Pick(0, 1, 500, 70000, g.Int(0, 1000000)))
			}
			op.Values[0] = int64(g.Int(0, 5))
			ops = append(ops, op)
		}
		sc.Clients = append(sc.Clients, ops)
	}
	for k := 0; k < nup; k++ {
		var ops []C18LinOp
		for i := 0; i < g.Int(1, 4); i++ {
			op := C18LinOp{Kind: "upload"}
			for u := 0; u < 2; u++ {
				if g.Bool(0.7) {
					op.Up[u], op.Down[u] = int64(g.Int(1, 5000)), int64(g.Int(1, 5000))
				}
			}
			if op.Up[0]+op.Up[1] == 0 {
				op.Up[0], op.Down[0] = 7, 11
			}
			ops = append(ops, op)
		}
		sc.Clients = append(sc.Clients, ops)
	}
	return sc
}

type linRec struct {
	present bool
	v       [6]int64
}

type linState [2]linRec

type linOut struct {
	code int
	vals [6]int64
}

var c18LinModel = porcupine.Model{
	Init: func() interface{} { return linState{} },
	Step: func(state, input, output interface{}) (bool, interface{}) {
		st := state.(linState)
		op := input.(C18LinOp)
		out := output.(linOut)
		switch op.Kind {
		case "post":
			if out.code != http.StatusCreated {
				return false, st
			}
			r := st[op.User]
			r.present = true
			for f := 0; f < 6; f++ {
				if op.Mask&(1<<f) != 0 {
					r.v[f] = op.Values[f]
				}
			}
			st[op.User] = r
			return true, st
		case "get":
			r := st[op.User]
			if !r.present {
				return out.code == http.StatusNotFound, st
			}
			return out.code == http.StatusOK && out.vals == r.v, st
		case "delete":
			if st[op.User].present && out.code != http.StatusOK {
				return false, st
			}
			st[op.User] = linRec{}
			return true, st
		case "upload":
			for u := 0; u < 2; u++ {
				if st[u].present && (op.Up[u] != 0 || op.Down[u] != 0) {
					st[u].v[3] -= op.Up[u]
					st[u].v[4] -= op.Down[u]
				}
			}
			return true, st
		}
		return false, st
	},
	DescribeOperation: func(input, output interface{}) string {
		return fmt.Sprintf("%+v -> %+v", input, output)
	},
}

func runC18Lin(c *Ctx, scAny any) {
	sc := scAny.(*C18LinScenario)
	w := NewSrvWorld(c, SrvParams{WithDB: true})
	defer w.Cleanup()
	uids := [][]byte{randBytes(c.Rng, 16), randBytes(c.Rng, 16)}
	mgr := w.Mgr
	router := usermanager.APIRouterOf(mgr)
	do := func(method, path string, body []byte) *httptest.ResponseRecorder {
		var req *http.Request
		if body != nil {
			req = httptest.NewRequest(method, path, bytes.NewReader(body))
		} else {
			req = httptest.NewRequest(method, path, nil)
		}
		rec := httptest.NewRecorder()
		router.ServeHTTP(rec, req)
		return rec
	}
	upath := func(u int) string { return "/admin/users/" + base64.URLEncoding.EncodeToString(uids[u]) }
	var history []porcupine.Operation
	var ev int64
	running := len(sc.Clients)
	for ci, ops := range sc.Clients {
		ci, ops := ci, ops
		simsync.Go("h:db-client", func() {
			defer func() { running-- }()
			for _, op := range ops {
				ev++
				call := ev
				var out linOut
				switch op.Kind {
				case "post":
					o := C18Op{Mask: op.Mask, Values: op.Values}
					out.code = do("POST", upath(op.User), o.body(uids[op.User])).Code
				case "get":
					rec := do("GET", upath(op.User), nil)
					out.code = rec.Code
					if rec.Code == http.StatusOK {
						var got usermanager.UserInfo
						if err := json.Unmarshal(rec.Body.Bytes(), &got); err != nil {
							c.Fail("kv", "get-body", "GET body does not parse: %v", err)
							return
						}
						vals, missing := infoVals(got)
						if missing != "" {
							c.Fail("kv", "get-body", "GET of user %d has no %s", op.User, missing)
							return
						}
						out.vals = vals
					}
				case "delete":
					out.code = do("DELETE", upath(op.User), nil).Code
				case "upload":
					var batch []usermanager.StatusUpdate
					for u := 0; u < 2; u++ {
						if op.Up[u] != 0 || op.Down[u] != 0 {
							batch = append(batch, usermanager.StatusUpdate{UID: uids[u], Active: true, NumSession: 1, UpUsage: op.Up[u], DownUsage: op.Down[u], Timestamp: time.Now().Unix()})
						}
					}
					if _, err := mgr.UploadStatus(batch); err != nil {
						c.Fail("kv", "upload-error", "UploadStatus: %v", err)
						return
					}
				}
				ev++
				history = append(history, porcupine.Operation{ClientId: ci, Input: op, Call: call, Output: out, Return: ev})
			}
		})
	}
	end := c.Drive(func() bool { return running == 0 })
	if c.Failed() || end != simsync.EndDone {
		return
	}
	switch porcupine.CheckOperationsTimeout(c18LinModel, history, 30*time.Second) {
	case porcupine.Illegal:
		var lines []byte
		for _, h := range history {
			lines = append(lines, fmt.Sprintf("  client %d [%d,%d] %+v -> %+v\n", h.ClientId, h.Call, h.Return, h.Input, h.Output)...)
		}
		c.Fail("kv", "not-linearizable", "no serial order of these operations on the user database explains what they returned (an acknowledged write overwritten by an upload that read earlier, usage deducted twice or not at all, ...):\n%s", lines)
	case porcupine.Unknown:
		c.Inconclusive("linearizability check timed out")
	default:
		c.Probe(fmt.Sprintf("linearizable_history_%d_ops", len(history)/5*5))
		// admission agrees with what the store now says (C15): a user can start a
		// session iff the record exists, both credits are positive, the expiry lies
		// ahead and the cap admits one session
		probed := false
		simsync.Go("h:admission-probe", func() {
			defer func() { probed = true }()
			admissionProbe(c, w, uids, do, upath)
		})
		c.Drive(func() bool { return probed })
	}
}

func admissionProbe(c *Ctx, w *SrvWorld, uids [][]byte, do func(method, path string, body []byte) *httptest.ResponseRecorder, upath func(int) string) {
	{
		for u := range uids {
			rec := do("GET", upath(u), nil)
			want := false
			if rec.Code == http.StatusOK {
				var got usermanager.UserInfo
				if json.Unmarshal(rec.Body.Bytes(), &got) == nil {
					if v, missing := infoVals(got); missing == "" {
						want = v[0] >= 1 && v[1] > 0 && v[2] > 0 && v[3] > 0 && v[4] > 0 && v[5] > time.Now().Unix()
					}
				}
			}
			admitted := false
			if user, err := w.Sta.Panel.GetUser(uids[u]); err == nil {
				var key [32]byte
				obf, _ := mux.MakeObfuscator(mux.EncryptionMethodPlain, key)
				if _, _, err := user.GetSession(9, mux.SessionConfig{Obfuscator: obf, InactivityTimeout: time.Hour}); err == nil {
					admitted = true
				}
				user.CloseSession(9, "")
			}
			if admitted != want {
				c.Fail("kv", "admission-disagrees", "user %d: the store says a new session is %s (record: %s), the server %s it", u, map[bool]string{true: "allowed", false: "not allowed"}[want], rec.Body.String(), map[bool]string{true: "admitted", false: "refused"}[admitted])
				return
			}
		}
	}
}

func init() {
	register(&Family{Name: "c18-linearizable", Count: func(tier string) int { return map[string]int{"quick": 1500, "thorough": 60000}[tier] },
		Gen: genC18Lin, New: func() any { return &C18LinScenario{} }, Run: runC18Lin, VirtCap: 10 * time.Minute,
		Policy: func(g *Gen) simsync.PolicyConfig {
			p := SwarmPolicy(g)
			p.Stall = 0
			return p
		}})
	plans["C18"] = append(plans["C18"], "c18-linearizable")
	// C15 ("a user whose credit is exhausted ... cannot start a session, for all
	// histories of credit/expiry changes made through the admin API") and C16
	// (exactly-once charging under admin-API changes) both rest on an
	// acknowledged admin write not being undone by a concurrent upload
	plans["C15"] = append(plans["C15"], "c18-linearizable")
	plans["C16"] = append(plans["C16"], "c18-linearizable")
}
