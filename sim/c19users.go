package verifsim

import (
	"encoding/binary"
	"fmt"
	"math/rand/v2"
	"time"

	"github.com/cbeuw/Cloak/internal/client"
	mux "github.com/cbeuw/Cloak/internal/multiplex"
	"github.com/cbeuw/Cloak/internal/server"
	"github.com/cbeuw/Cloak/internal/simsync"
	"github.com/cbeuw/Cloak/verifsim/simnet"
)

// ---- C19 through the whole server: one limited user, several sessions at once ----
//
// c19-rates hands one LimitedValve to the sessions it builds itself. Here the
// limiter is the one the server gives the user: a database user with
// UpRate/DownRate R, whose 2..4 sessions (real clients, real handshakes) are
// started at the same instant - the user's first login - and download
// backlogged through the proxy upstream. Oracle: everything the server puts on
// the wire for that user, over all its sessions and connections, stays within
// rate*dt*1.01 + one second of burst (+ the unmetered handshake replies).

type C19UsersScenario struct {
	Rate     int64  `json:"rate"`     // bytes/s, both directions
	Sessions int    `json:"sessions"` // started simultaneously
	NumConn  int    `json:"num_conn"`
	Streams  int    `json:"streams"` // per session
	Seconds  int    `json:"seconds"` // volume = Rate*Seconds per session, split over its streams
	Partial  bool   `json:"partial"`
	Seed     uint64 `json:"seed"`
	// Reconnect: one session with a backlog of downloads; the server closes it
	// (the proxy server cannot be reached for one more stream); as soon as the
	// server has forgotten the user's record the user logs in again and downloads
	// again: whatever the old session still sends and the new one together stay
	// within the rate (plus one burst per incarnation of the user's limiter)
	Reconnect bool `json:"reconnect,omitempty"`
}

func genC19Users(g *Gen) any {
	if g.Bool(0.25) {
		return &C19UsersScenario{Rate: logUniform(g, 16640, 30000), Sessions: 1, NumConn: g.Int(1, 3), Streams: g.Int(4, 8),
			Seconds: g.Int(5, 8), Partial: g.Bool(0.3), Seed: g.Rng.Uint64(), Reconnect: true}
	}
	return &C19UsersScenario{Rate: logUniform(g, 16640, 120000), Sessions: g.Int(2, 4), NumConn: g.Int(1, 3), Streams: g.Int(1, 2),
		Seconds: g.Int(3, 5), Partial: g.Bool(0.3), Seed: g.Rng.Uint64()}
}

func runC19Users(c *Ctx, scAny any) {
	sc := scAny.(*C19UsersScenario)
	c.Net.TapOn = true
	c.Net.DefaultPartial = sc.Partial
	w := NewSrvWorld(c, SrvParams{WithDB: true})
	defer w.Cleanup()
	uid := randBytes(c.Rng, 16)
	far := time.Now().Add(1000 * time.Hour).Unix()
	if err := mkUser(w, uid, 8, sc.Rate, sc.Rate, 1e12, 1e12, far); err != nil {
		c.Fail("setup", "db", "%v", err)
		return
	}
	simsync.Go("h:serve", func() { server.Serve(w.Front, w.Sta) })
	upRecv := make([]int64, 1)
	startUpstream(w.Upstream["shadowsocks"], upRecv, nil)
	simsync.Go("h:target", func() {
		for {
			tc, err := w.Redir.Accept()
			if err != nil {
				return
			}
			tc.Close()
		}
	})
	start := c.W.Elapsed()
	perStream := int(sc.Rate) * sc.Seconds / sc.Streams
	pending := sc.Sessions * sc.Streams
	killed := false // (Reconnect) the first session is being closed by the server: its streams end
	nSessions := sc.Sessions
	if sc.Reconnect {
		pending = sc.Streams // the downloads of the second login are what must complete
		nSessions = 2
	}
	userKnown := func() bool {
		for _, u := range w.Sta.Panel.VerifUsers() {
			if string(u.UID[:]) == string(uid) {
				return true
			}
		}
		return false
	}
	for s := 0; s < nSessions; s++ {
		s := s
		simsync.Go("h:client", func() {
			if sc.Reconnect && s == 1 {
				// the second login: once the server, having failed to reach the proxy
				// server for the first session's extra stream, has forgotten the user
				for (c.Net.Fired["dial_fail"] == 0 || userKnown()) && !c.Failed() {
					Sleep(10 * time.Millisecond)
				}
			}
			cp := ClientParams{UID: uid, Method: "shadowsocks", Encryption: []string{"plain", "aes-gcm", "chacha20-poly1305"}[s%3], Browser: "firefox", Transport: "direct",
				NumConn: sc.NumConn, SessionID: uint32(100 + s)}
			rng := rand.New(rand.NewPCG(sc.Seed, uint64(40+s)))
			_, remote, auth, err := w.ClientConfig(cp, rng)
			if err != nil {
				c.Fail("setup", "config", "%v", err)
				return
			}
			d := &simnet.Dialer{Net: c.Net, LocalIP: "10.0.6.1", Tag: "front"}
			var sesh *mux.Session = client.MakeSession(remote, auth, d)
			if sc.Reconnect && s == 0 {
				simsync.Go("h:one-more-stream", func() {
					Sleep(1500 * time.Millisecond)
					killed = true
					c.Net.DialFail["10.0.0.3:8388"] = 1
					if st, err := sesh.OpenStream(); err == nil {
						st.Write(make([]byte, 12))
					}
				})
			}
			for k := 0; k < sc.Streams; k++ {
				simsync.Go("h:client-stream", func() {
					if !(sc.Reconnect && s == 0) {
						defer func() { pending-- }()
					}
					st, err := sesh.OpenStream()
					if err != nil {
						if killed && s == 0 {
							return
						}
						c.Fail("rate", "error:open", "%v", err)
						return
					}
					hdr := make([]byte, 12)
					binary.BigEndian.PutUint32(hdr[4:], uint32(perStream))
					if _, err := st.Write(hdr); err != nil {
						if killed && s == 0 {
							return
						}
						c.Fail("rate", "error:write", "session %d: %v", s, err)
						return
					}
					buf := make([]byte, 32768)
					for got := 0; got < perStream; {
						n, err := st.Read(buf)
						got += n
						if err != nil {
							if killed && s == 0 {
								return // the server closed this session
							}
							c.Fail("rate", "error:read", "session %d after %d of %d bytes: %v", s, got, perStream, err)
							return
						}
					}
				})
			}
		})
	}
	end := c.Drive(func() bool { return pending == 0 })
	if c.Failed() || end != simsync.EndDone {
		if end == simsync.EndQuiescent && !c.Failed() {
			c.Fail("rate", "stuck", "downloads of a user with credit and rate %d B/s never finished\n%s", sc.Rate, c.W.DumpTasks())
		}
		return
	}
	front := frontLinks(c)
	keys := map[string]bool{}
	for _, l := range front {
		keys[l.Dir[1].Key] = true
	}
	var tx []rateEvent
	seenFirst := map[string]bool{}
	for _, e := range c.Net.Tap {
		if keys[e.Pipe] {
			if !seenFirst[e.Pipe] {
				// the handshake reply (ServerHello, CCS, encrypted session key: one
				// write) is not metered
				seenFirst[e.Pipe] = true
				continue
			}
			tx = append(tx, rateEvent{e.At - start, int64(e.N - 5)})
		}
	}
	bursts := 1
	if sc.Reconnect {
		bursts = 2
		c.Probe("reconnected_after_server_close")
	}
	if ok, why := checkEnvelopeN(tx, sc.Rate, bursts); !ok {
		c.Fail("rate", "tx-exceeded", "one user (DownRate %d B/s) with %d sessions started together on %d connections: %s", sc.Rate, sc.Sessions, len(front), why)
		return
	}
	c.Probe(fmt.Sprintf("user_sessions_%d", sc.Sessions))
}

func init() {
	register(&Family{Name: "c19-users", Count: func(tier string) int { return map[string]int{"quick": 300, "thorough": 10000}[tier] },
		Gen: genC19Users, New: func() any { return &C19UsersScenario{} }, Run: runC19Users, VirtCap: 10 * time.Minute, MaxSteps: 3000000,
		Policy: func(g *Gen) simsync.PolicyConfig {
			p := SwarmPolicy(g)
			p.Stall = 0
			return p
		}})
	plans["C19"] = append(plans["C19"], "c19-users")
}
