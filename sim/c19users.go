package verifsim

import (
	"encoding/binary"
	"fmt"
	"math/rand/v2"
	"time"

	"github.com/cbeuw/Cloak/internal/client"
	mux "github.com/cbeuw/Cloak/internal/multiplex"
	"github.com/cbeuw/Cloak/internal/server"
	"github.com/cbeuw/Cloak/internal/simsync"
	"github.com/cbeuw/Cloak/verifsim/simnet"
)

// ---- C19 through the whole server: one limited user, several sessions at once ----
//
// c19-rates hands one LimitedValve to the sessions it builds itself. Here the
// limiter is the one the server gives the user: a database user with
// UpRate/DownRate R, whose 2..4 sessions (real clients, real handshakes) are
// started at the same instant - the user's first login - and download
// backlogged through the proxy upstream. Oracle: everything the server puts on
// the wire for that user, over all its sessions and connections, stays within
// rate*dt*1.01 + one second of burst (+ the unmetered handshake replies).

type C19UsersScenario struct {
	Rate     int64  `json:"rate"`     // bytes/s, both directions
	Sessions int    `json:"sessions"` // started simultaneously
	NumConn  int    `json:"num_conn"`
	Streams  int    `json:"streams"` // per session
	Seconds  int    `json:"seconds"` // volume = Rate*Seconds per session, split over its streams
	Partial  bool   `json:"partial"`
	Seed     uint64 `json:"seed"`
}

func genC19Users(g *Gen) any {
	return &C19UsersScenario{Rate: logUniform(g, 16640, 120000), Sessions: g.Int(2, 4), NumConn: g.Int(1, 3), Streams: g.Int(1, 2),
		Seconds: g.Int(3, 5), Partial: g.Bool(0.3), Seed: g.Rng.Uint64()}
}

func runC19Users(c *Ctx, scAny any) {
	sc := scAny.(*C19UsersScenario)
	c.Net.TapOn = true
	c.Net.DefaultPartial = sc.Partial
	w := NewSrvWorld(c, SrvParams{WithDB: true})
	defer w.Cleanup()
	uid := randBytes(c.Rng, 16)
	far := time.Now().Add(1000 * time.Hour).Unix()
	if err := mkUser(w, uid, 8, sc.Rate, sc.Rate, 1e12, 1e12, far); err != nil {
		c.Fail("setup", "db", "%v", err)
		return
	}
	simsync.Go("h:serve", func() { server.Serve(w.Front, w.Sta) })
	upRecv := make([]int64, 1)
	startUpstream(w.Upstream["shadowsocks"], upRecv, nil)
	simsync.Go("h:target", func() {
		for {
			tc, err := w.Redir.Accept()
			if err != nil {
				return
			}
			tc.Close()
		}
	})
	start := c.W.Elapsed()
	perStream := int(sc.Rate) * sc.Seconds / sc.Streams
	pending := sc.Sessions * sc.Streams
	for s := 0; s < sc.Sessions; s++ {
		s := s
		simsync.Go("h:client", func() {
			cp := ClientParams{UID: uid, Method: "shadowsocks", Encryption: []string{"plain", "aes-gcm", "chacha20-poly1305"}[s%3], Browser: "firefox", Transport: "direct",
				NumConn: sc.NumConn, SessionID: uint32(100 + s)}
			rng := rand.New(rand.NewPCG(sc.Seed, uint64(40+s)))
			_, remote, auth, err := w.ClientConfig(cp, rng)
			if err != nil {
				c.Fail("setup", "config", "%v", err)
				return
			}
			d := &simnet.Dialer{Net: c.Net, LocalIP: "10.0.6.1", Tag: "front"}
			var sesh *mux.Session = client.MakeSession(remote, auth, d)
			for k := 0; k < sc.Streams; k++ {
				simsync.Go("h:client-stream", func() {
					defer func() { pending-- }()
					st, err := sesh.OpenStream()
					if err != nil {
						c.Fail("rate", "error:open", "%v", err)
						return
					}
					hdr := make([]byte, 12)
					binary.BigEndian.PutUint32(hdr[4:], uint32(perStream))
					if _, err := st.Write(hdr); err != nil {
						c.Fail("rate", "error:write", "%v", err)
						return
					}
					buf := make([]byte, 32768)
					for got := 0; got < perStream; {
						n, err := st.Read(buf)
						got += n
						if err != nil {
							c.Fail("rate", "error:read", "after %d of %d bytes: %v", got, perStream, err)
							return
						}
					}
				})
			}
		})
	}
	end := c.Drive(func() bool { return pending == 0 })
	if c.Failed() || end != simsync.EndDone {
		if end == simsync.EndQuiescent && !c.Failed() {
			c.Fail("rate", "stuck", "downloads of a user with credit and rate %d B/s never finished\n%s", sc.Rate, c.W.DumpTasks())
		}
		return
	}
	front := frontLinks(c)
	keys := map[string]bool{}
	for _, l := range front {
		keys[l.Dir[1].Key] = true
	}
	var tx []rateEvent
	seenFirst := map[string]bool{}
	for _, e := range c.Net.Tap {
		if keys[e.Pipe] {
			if !seenFirst[e.Pipe] {
				// the handshake reply (ServerHello, CCS, encrypted session key: one
				// write) is not metered
				seenFirst[e.Pipe] = true
				continue
			}
			tx = append(tx, rateEvent{e.At - start, int64(e.N - 5)})
		}
	}
	if ok, why := checkEnvelope(tx, sc.Rate); !ok {
		c.Fail("rate", "tx-exceeded", "one user (DownRate %d B/s) with %d sessions started together on %d connections: %s", sc.Rate, sc.Sessions, len(front), why)
		return
	}
	c.Probe(fmt.Sprintf("user_sessions_%d", sc.Sessions))
}

func init() {
	register(&Family{Name: "c19-users", Count: func(tier string) int { return map[string]int{"quick": 300, "thorough": 10000}[tier] },
		Gen: genC19Users, New: func() any { return &C19UsersScenario{} }, Run: runC19Users, VirtCap: 10 * time.Minute, MaxSteps: 3000000,
		Policy: func(g *Gen) simsync.PolicyConfig {
			p := SwarmPolicy(g)
			p.Stall = 0
			return p
		}})
	plans["C19"] = append(plans["C19"], "c19-users")
}
