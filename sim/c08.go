package verifsim

import (
	"bytes"
	"encoding/base64"
	"encoding/binary"
	"errors"
	"fmt"
	"math/rand/v2"
	"time"

	"github.com/cbeuw/Cloak/internal/client"
	"github.com/cbeuw/Cloak/internal/server"
	"github.com/cbeuw/Cloak/internal/simsync"
)

// ---- C08: a captured handshake is accepted at most once ----
//
// W-auth: a real server.State with its real UsedRandomCleaner goroutine in the
// bubble (12 hours cost microseconds); presentations are calls to
// server.AuthFirstPacket from harness tasks at chosen virtual instants.

type C08Present struct {
	// AtMS: virtual time of the presentation, in ms after the first one
	AtMS int64 `json:"at_ms"`
	// Alter: which single bit of the packet to flip for this presentation (-1: none)
	Alter int `json:"alter"`
	// N: number of tasks presenting simultaneously (>=1)
	N int `json:"n"`
	// Junk > 0: instead of the captured packet, that many distinct other first
	// packets (copies with another ephemeral key: a keyless flood of probes,
	// each remembered by the server before it fails to decrypt) arrive one
	// after the other at this instant
	Junk int `json:"junk,omitempty"`
	// StepMS: the server clock jumps by this much right before this presentation
	StepMS int64 `json:"step_ms,omitempty"`
}

type C08Scenario struct {
	Client ClientParams `json:"client"`
	WS     bool         `json:"ws"` // WebSocket (CDN) first packet instead of a ClientHello
	// FirstAtMS: virtual time (since server start) of the first presentation
	FirstAtMS int64 `json:"first_at_ms"`
	// FirstN: number of tasks making the very first presentation at once
	FirstN    int          `json:"first_n,omitempty"`
	Presents  []C08Present `json:"presents"`
	SrvSkewMS int64        `json:"srv_skew_ms"`
	Seed      uint64       `json:"seed"`
}

// alterOtherTransport as C08Present.Alter: present the same sealed block in
// the other transport's envelope (TLS ClientHello <-> WebSocket upgrade)
const alterOtherTransport = 1 << 30

// alterHiddenBit+k as C08Present.Alter: flip bit k of the 96 decoded bytes a
// WebSocket first packet carries in its "hidden" header (a flipped bit of the
// base64 text is a different alteration)
const alterHiddenBit = 1 << 29

const tolMS = 180000
const cleanMS = 12 * 3600 * 1000

func genC08History(g *Gen) any {
	sc := &C08Scenario{Seed: g.Rng.Uint64(), WS: g.Bool(0.25)}
	sc.Client = ClientParams{Method: "shadowsocks", Encryption: "aes-gcm", Browser: []string{"chrome", "firefox", "safari"}[g.Rng.IntN(3)], Transport: "direct", NumConn: 1, SessionID: g.Rng.Uint32()}
	// client clock offset strictly inside the window (whole seconds matter: keep 2 s away from the edges)
	sc.Client.SkewMS = int64(g.Int(-177000, 177000))
	sc.SrvSkewMS = int64(g.Pick(0, 0, 5000, -86400000, 3600000))
	// first presentation: often just before a clean-up of the replay memory
	k := int64(g.Int(0, 3))
	switch g.Int(0, 3) {
	case 0:
		sc.FirstAtMS = int64(g.Int(0, 100000))
	case 1:
		sc.FirstAtMS = k*cleanMS + cleanMS - int64(g.Pick(1, 500, 1000, 100000, 179000, 181000, 359000, 361000))
	case 2:
		sc.FirstAtMS = k*cleanMS + cleanMS + int64(g.Pick(0, 1, 1000, 100000))
	default:
		sc.FirstAtMS = int64(g.Int(0, 40*3600*1000))
	}
	// the packet stays acceptable while now < clientTimestamp + 180 s, i.e. for
	// (180 s + client skew) after the first presentation
	life := int64(tolMS) + sc.Client.SkewMS
	n := g.Int(1, 5)
	for i := 0; i < n; i++ {
		p := C08Present{AtMS: int64(g.Rng.Int64N(life + 20000)), Alter: -1, N: 1}
		if g.Bool(0.3) {
			p.AtMS = 0
		}
		if g.Bool(0.3) {
			p.N = g.Int(2, 16)
		}
		if g.Bool(0.15) {
			p.Alter = alterOtherTransport
		}
		if g.Bool(0.15) {
			// the server's wall clock is stepped (NTP, an operator) right before
			p.StepMS = int64(g.Pick(-1000, -2000, -30000, -30000, 2000))
		}
		sc.Presents = append(sc.Presents, p)
	}
	if g.Bool(0.3) {
		sc.Presents[0].AtMS = 0
		sc.Presents[0].N = g.Int(2, 16)
	}
	if g.Bool(0.4) {
		sc.FirstN = g.Int(2, 16)
	}
	if sc.Seed%40 == 7 && !sc.WS {
		// a flood of other first packets between the first presentation and a
		// replay that is still inside the window of a client whose clock runs ahead
		skew := int64(g.Int(100000, 170000))
		sc.Client.SkewMS = skew
		sc.FirstN = 0
		sc.Presents = []C08Present{
			{AtMS: int64(g.Int(181000, 186000)), Alter: -1, N: 1, Junk: g.Pick(16400, 16400, 17000, 2000)},
			{AtMS: int64(g.Int(187000, 179000+int(skew)/1000*1000)), Alter: -1, N: g.Pick(1, 1, 4)},
		}
		return sc
	}
	if g.Bool(0.15) {
		// many simultaneous first presentations at the very instant a clean-up
		// pass runs: whatever the pass does in several steps is interleaved with
		// the test-and-set of the presentations
		sc.FirstAtMS = (k + 1) * cleanMS
		sc.FirstN = g.Int(3, 16)
	}
	return sc
}

// c08-altered: first the genuine packet, then a copy with one bit flipped
// (every bit of a firefox hello in quick; all three browsers in thorough)
func c08AlteredCount(tier string) int {
	if tier == "thorough" {
		return 3*2200*8 + 96*8
	}
	return 700*8 + 96*8
}

func genC08Altered(g *Gen) any {
	sc := &C08Scenario{Seed: 0xA17E, FirstAtMS: 1000}
	browser := "firefox"
	bit := g.Idx - 96*8
	if bit < 0 {
		// the WebSocket block first: a budget cut must not drop it
		sc.WS, bit = true, alterHiddenBit+g.Idx
	} else if g.Tier == "thorough" {
		browser = []string{"firefox", "safari", "chrome"}[bit/(2200*8)]
		bit = bit % (2200 * 8)
	}
	sc.Client = ClientParams{Method: "shadowsocks", Encryption: "aes-gcm", Browser: browser, Transport: "direct", NumConn: 1, SessionID: 77}
	// the altered copy, then the genuine packet once more: a refused copy must
	// not make the server forget what it has already accepted
	at := int64(g.Pick(0, 1000, 60000))
	sc.Presents = []C08Present{{AtMS: at, Alter: bit, N: 1}, {AtMS: at + int64(g.Pick(0, 1, 2000)), Alter: -1, N: 1}}
	return sc
}

func wsFirstPacket(w *SrvWorld, p ClientParams, rng *rand.Rand) ([]byte, client.AuthInfo, error) {
	_, _, auth, err := w.ClientConfig(p, rng)
	if err != nil {
		return nil, auth, err
	}
	pub, ct, _ := client.VerifAuthPayload(auth)
	hidden := append(append([]byte(nil), pub[:]...), ct[:]...)
	req := "GET / HTTP/1.1\r\nHost: 10.0.0.2:443\r\nUpgrade: websocket\r\nConnection: Upgrade\r\nSec-WebSocket-Key: dGhlIHNhbXBsZSBub25jZQ==\r\nSec-WebSocket-Version: 13\r\nHidden: " + b64(hidden) + "\r\n\r\n"
	return []byte(req), auth, nil
}

func runC08(c *Ctx, scAny any) {
	sc := scAny.(*C08Scenario)
	w := NewSrvWorld(c, SrvParams{NBypass: 1, SkewMS: sc.SrvSkewMS})
	defer w.Cleanup()
	sc.Client.UID = w.Bypass[0]
	// the client's offset is relative to the server's clock
	sc.Client.SkewMS += sc.SrvSkewMS
	rng := rand.New(rand.NewPCG(sc.Seed, 8))
	var tr server.Transport = server.TLS{}
	var pkt []byte
	type outcome struct {
		at     time.Duration
		alter  int
		err    error
		srvNow time.Time
	}
	var results []outcome
	var clientTS int64
	finished := false
	simsync.Go("h:history", func() {
		defer func() { finished = true }()
		Sleep(time.Duration(sc.FirstAtMS) * time.Millisecond)
		// the client builds its packet now, on its own clock
		var err error
		if sc.WS {
			tr = server.WebSocket{}
			pkt, _, err = wsFirstPacket(w, sc.Client, rng)
		} else {
			pkt, err = w.FirstPacket(sc.Client, rng)
		}
		if err != nil {
			c.Fail("setup", "hello", "building the first packet: %v", err)
			return
		}
		clientTS = time.Now().Add(time.Duration(sc.Client.SkewMS) * time.Millisecond).Unix()
		base := time.Now()
		present := func(alter, n int) {
			p := append([]byte(nil), pkt...)
			ptr := tr
			if alter == alterOtherTransport {
				// the same sealed block (ephemeral key + ciphertext + tag: 96 public
				// bytes) lifted into the other transport's first packet
				var hidden []byte
				if sc.WS {
					i := bytes.Index(pkt, []byte("Hidden: "))
					j := bytes.Index(pkt[i:], []byte("\r\n"))
					hidden, _ = base64.StdEncoding.DecodeString(string(pkt[i+8 : i+j]))
					tpl, err := w.FirstPacket(sc.Client, rng)
					ch, perr := parseClientHello(tpl)
					if err != nil || perr != nil || len(hidden) != 96 {
						c.Fail("setup", "hello", "building the other transport's packet: %v %v (%d hidden bytes)", err, perr, len(hidden))
						return
					}
					copy(tpl[ch.RandomOff:], hidden[:32])
					copy(tpl[ch.SessionIDOff:], hidden[32:64])
					copy(tpl[ch.KeyShareOff:], hidden[64:96])
					p, ptr = tpl, server.TLS{}
				} else {
					ch, perr := parseClientHello(pkt)
					if perr != nil {
						c.Fail("setup", "hello", "%v", perr)
						return
					}
					hidden = append(append(append([]byte(nil), pkt[ch.RandomOff:ch.RandomOff+32]...), pkt[ch.SessionIDOff:ch.SessionIDOff+32]...), pkt[ch.KeyShareOff:ch.KeyShareOff+32]...)
					p = []byte("GET / HTTP/1.1\r\nHost: 10.0.0.2:443\r\nUpgrade: websocket\r\nConnection: Upgrade\r\nSec-WebSocket-Key: dGhlIHNhbXBsZSBub25jZQ==\r\nSec-WebSocket-Version: 13\r\nHidden: " + b64(hidden) + "\r\n\r\n")
					ptr = server.WebSocket{}
				}
			} else if alter >= alterHiddenBit {
				k := alter - alterHiddenBit
				i := bytes.Index(p, []byte("Hidden: "))
				j := bytes.Index(p[i:], []byte("\r\n"))
				hidden, _ := base64.StdEncoding.DecodeString(string(p[i+8 : i+j]))
				if k/8 >= len(hidden) {
					return
				}
				hidden[k/8] ^= 1 << (k % 8)
				copy(p[i+8:i+j], b64(hidden))
			} else if alter >= 0 {
				if alter/8 >= len(p) {
					return
				}
				p[alter/8] ^= 1 << (alter % 8)
			}
			pending := n
			for i := 0; i < n; i++ {
				simsync.Go("h:present", func() {
					_, _, err := server.AuthFirstPacket(append([]byte(nil), p...), ptr, w.Sta)
					results = append(results, outcome{time.Since(base), alter, err, w.Sta.WorldState.Now()})
					pending--
				})
			}
			for pending > 0 {
				Sleep(time.Microsecond)
			}
		}
		// the genuine first presentation
		present(-1, max(sc.FirstN, 1))
		ps := append([]C08Present(nil), sc.Presents...)
		for i := 1; i < len(ps); i++ {
			for j := i; j > 0 && ps[j-1].AtMS > ps[j].AtMS; j-- {
				ps[j-1], ps[j] = ps[j], ps[j-1]
			}
		}
		for _, p := range ps {
			if d := time.Duration(p.AtMS)*time.Millisecond - time.Since(base); d > 0 {
				Sleep(d)
			}
			if p.Junk > 0 {
				if sc.WS {
					continue
				}
				ch, perr := parseClientHello(pkt)
				if perr != nil {
					c.Fail("setup", "hello", "%v", perr)
					return
				}
				j := append([]byte(nil), pkt...)
				simsync.AtomicEnter() // nothing else happens during the flood: no scheduling points
				for i := 0; i < p.Junk; i++ {
					// another "ephemeral key" (the top bit stays as it was)
					binary.BigEndian.PutUint32(j[ch.RandomOff+4:], uint32(i+1))
					server.AuthFirstPacket(append([]byte(nil), j...), tr, w.Sta)
				}
				simsync.AtomicLeave()
				c.Probe("junk_flood")
				continue
			}
			if p.StepMS != 0 {
				w.Skew += time.Duration(p.StepMS) * time.Millisecond
				c.Probe("server_clock_stepped")
			}
			present(p.Alter, p.N)
		}
	})
	c.Drive(func() bool { return finished })
	if c.Failed() || !finished {
		return
	}
	// oracle: per sealed identity block at most one acceptance while the
	// embedded timestamp is inside the acceptance window
	accepted := 0
	for i, r := range results {
		d := time.Unix(clientTS, 0).Sub(r.srvNow)
		inWindow := d > -tolMS*time.Millisecond && d < tolMS*time.Millisecond
		if r.err == nil {
			accepted++
			if !inWindow {
				c.Fail("replay", "accepted-out-of-window", "presentation %d accepted although its timestamp is %d s from the server clock", i, r.srvNow.Unix()-clientTS)
				return
			}
			if accepted > 1 {
				what := "the same first packet"
				sig := "replayed"
				if r.alter == alterOtherTransport {
					what = "the same sealed identity block presented in the other transport's first packet"
					sig = "replayed:other-transport"
				} else if r.alter >= alterHiddenBit {
					k := r.alter - alterHiddenBit
					what = fmt.Sprintf("a copy with bit %d of byte %d of the decoded hidden header flipped (WebSocket)", k%8, k/8)
					sig = "altered-copy"
				} else if r.alter >= 0 {
					what = fmt.Sprintf("a copy with bit %d of byte %d flipped (same sealed identity block)", r.alter%8, r.alter/8)
					sig = "altered-copy"
				}
				if w.Sta.VerifUsedRandomLen() == 0 || cleanedBetween(sc, r.at) {
					sig += ":after-cleanup"
				}
				c.Fail("replay", sig, "%s was accepted a second time %v after its first acceptance (timestamp still %d s from the server clock, window 180 s; first presentation at %v after server start, clean-ups every 12 h)", what, r.at, r.srvNow.Unix()-clientTS, time.Duration(sc.FirstAtMS)*time.Millisecond)
				return
			}
		} else if i == max(sc.FirstN, 1)-1 && accepted == 0 {
			c.Fail("replay", "genuine-rejected", "the genuine first presentation (%d simultaneous tasks) was rejected by all: %v (client skew %d ms)", max(sc.FirstN, 1), r.err, sc.Client.SkewMS)
			return
		} else if r.alter < 0 && inWindow && !errors.Is(r.err, server.ErrReplay) {
			c.Probe("replay_rejected_other_error")
		}
	}
	c.Probe(fmt.Sprintf("presentations_%d", len(results)))
	if cleanedBetween(sc, results[len(results)-1].at) {
		c.Probe("cleaner_ran_between")
	}
}

// cleanedBetween: did a 12 h clean-up fall between the first presentation and at?
func cleanedBetween(sc *C08Scenario, at time.Duration) bool {
	a := sc.FirstAtMS
	b := sc.FirstAtMS + at.Milliseconds()
	return a/cleanMS != b/cleanMS
}

func abs64(x int64) int64 {
	if x < 0 {
		return -x
	}
	return x
}

func init() {
	pol := func(g *Gen) simsync.PolicyConfig {
		p := SwarmPolicy(g)
		if g.Bool(0.3) {
			// the only background task here is the replay-memory cleaner: preempt
			// it once, somewhere in a pass, while presentations run
			p = Pre1Policy(g, p)
			p.PreSys = true
		}
		p.Stall = 0
		return p
	}
	newSc := func() any { return &C08Scenario{} }
	register(&Family{Name: "c08-history", Count: func(tier string) int { return map[string]int{"quick": 3000, "thorough": 100000}[tier] },
		Gen: genC08History, New: newSc, Run: runC08, Policy: pol, VirtCap: 100 * time.Hour})
	register(&Family{Name: "c08-altered", Enumerated: true, Count: c08AlteredCount, Gen: genC08Altered, New: newSc, Run: runC08, Policy: pol, VirtCap: 100 * time.Hour})
	plans["C08"] = []string{"c08-history", "c08-altered", "c08-live-replay"}
}
