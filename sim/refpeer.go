package verifsim

import (
	"encoding/binary"
	"errors"
	"fmt"
	"io"
	"math/rand/v2"
	"net"
	"sync"

	"github.com/cbeuw/Cloak/internal/simsync"
)

// RefPeer is a minimal, independent implementation of a Cloak multiplexing
// endpoint (DESIGN.md 2.7): TLS-record framing, the reference frame codec,
// per-stream sequence counters, a reorder map and close handling. It can
// stand in for either side of W-sess.
type RefPeer struct {
	mu      sync.Mutex
	codec   *RefCodec
	conns   []net.Conn
	streams map[uint32]*RefStream
	acceptQ []*RefStream
	aq      simsync.WaitQ
	rng     *rand.Rand
	maxPay  int
	rr      int
	Err     error
	// SessionCloseSeen: a session-closing notice was received and decoded
	SessionCloseSeen bool
	closed           bool
}

type RefStream struct {
	p       *RefPeer
	ID      uint32
	sendSeq uint64
	next    uint64
	parked  map[uint64]RefFrame
	data    []byte
	eof     bool
	rq      simsync.WaitQ
	wclosed bool
}

var ErrRefClosed = errors.New("refpeer: stream closed")

func NewRefPeer(method byte, key [32]byte, wireLimit int, seed uint64) *RefPeer {
	codec, err := NewRefCodec(method, key)
	if err != nil {
		panic(err)
	}
	if wireLimit <= 0 {
		wireLimit = 16640
	}
	p := &RefPeer{codec: codec, streams: map[uint32]*RefStream{}, rng: rand.New(rand.NewPCG(seed, 0xbeef)), maxPay: wireLimit - 14 - 255}
	p.aq.Desc = "refpeer accept"
	return p
}

// AddConn attaches a raw connection and starts its reader task.
func (p *RefPeer) AddConn(c net.Conn) {
	p.mu.Lock()
	p.conns = append(p.conns, c)
	p.mu.Unlock()
	simsync.Go("h:refpeer-rx", func() { p.readLoop(c) })
}

func (p *RefPeer) readLoop(c net.Conn) {
	hdr := make([]byte, 5)
	for {
		if _, err := io.ReadFull(c, hdr); err != nil {
			p.fail(err)
			return
		}
		n := int(binary.BigEndian.Uint16(hdr[3:5]))
		body := make([]byte, n)
		if _, err := io.ReadFull(c, body); err != nil {
			p.fail(err)
			return
		}
		if hdr[0] != 23 || hdr[1] != 3 || hdr[2] != 3 {
			p.fail(errors.New("refpeer: record header is not application data 3.3"))
			return
		}
		if limit := p.maxPay + 14 + 255; n > limit {
			p.fail(fmt.Errorf("refpeer: a message of %d bytes exceeds the session's on-wire size limit of %d", n, limit))
			return
		}
		f, err := p.codec.Decode(body)
		if err != nil {
			p.fail(err)
			return
		}
		p.deliver(f)
	}
}

func (p *RefPeer) fail(err error) {
	p.mu.Lock()
	defer p.mu.Unlock()
	if p.Err == nil && !p.closed {
		p.Err = err
	}
	p.closed = true
	for _, s := range p.streams {
		s.eof = true
		s.rq.Wake()
	}
	p.aq.Wake()
}

func (p *RefPeer) stream(id uint32) (*RefStream, bool) {
	s, ok := p.streams[id]
	if !ok {
		s = &RefStream{p: p, ID: id, parked: map[uint64]RefFrame{}}
		s.rq.Desc = "refpeer stream read"
		p.streams[id] = s
	}
	return s, !ok
}

func (p *RefPeer) deliver(f RefFrame) {
	p.mu.Lock()
	defer p.mu.Unlock()
	if f.Closing == 2 {
		p.SessionCloseSeen = true
		p.closed = true
		for _, s := range p.streams {
			s.eof = true
			s.rq.Wake()
		}
		p.aq.Wake()
		return
	}
	s, isNew := p.stream(f.StreamID)
	if isNew {
		p.acceptQ = append(p.acceptQ, s)
		p.aq.Wake()
	}
	if f.Seq < s.next {
		return
	}
	s.parked[f.Seq] = f
	for {
		g, ok := s.parked[s.next]
		if !ok {
			break
		}
		delete(s.parked, s.next)
		if g.Closing != 0 {
			s.eof = true
			break
		}
		s.data = append(s.data, g.Payload...)
		s.next++
	}
	s.rq.Wake()
}

// Open registers a locally opened stream.
func (p *RefPeer) Open(id uint32) *RefStream {
	p.mu.Lock()
	defer p.mu.Unlock()
	s, _ := p.stream(id)
	return s
}

func (p *RefPeer) Accept() (*RefStream, error) {
	p.mu.Lock()
	defer p.mu.Unlock()
	for {
		if len(p.acceptQ) > 0 {
			s := p.acceptQ[0]
			p.acceptQ = p.acceptQ[1:]
			return s, nil
		}
		if p.closed {
			return nil, ErrRefClosed
		}
		p.aq.Wait(&p.mu)
	}
}

func (s *RefStream) Read(b []byte) (int, error) {
	p := s.p
	p.mu.Lock()
	defer p.mu.Unlock()
	for len(s.data) == 0 {
		if s.eof {
			return 0, ErrRefClosed
		}
		s.rq.Wait(&p.mu)
	}
	n := copy(b, s.data)
	s.data = s.data[n:]
	return n, nil
}

func (p *RefPeer) sendFrame(f RefFrame) error {
	p.mu.Lock()
	if len(p.conns) == 0 {
		p.mu.Unlock()
		return errors.New("refpeer: no connection")
	}
	if f.Seq < 5 {
		f.PadLen = p.rng.IntN(255 - p.codec.TagLen() + 1)
	}
	rnd := make([]byte, f.PadLen+8)
	for i := range rnd {
		rnd[i] = byte(p.rng.Uint32())
	}
	msg := p.codec.Encode(f, rnd)
	c := p.conns[p.rng.IntN(len(p.conns))]
	p.mu.Unlock()
	rec := make([]byte, 5+len(msg))
	rec[0], rec[1], rec[2] = 23, 3, 3
	binary.BigEndian.PutUint16(rec[3:], uint16(len(msg)))
	copy(rec[5:], msg)
	_, err := c.Write(rec)
	return err
}

func (s *RefStream) Write(b []byte) (int, error) {
	n := 0
	for n < len(b) {
		k := min(len(b)-n, s.p.maxPay)
		s.p.mu.Lock()
		if s.wclosed {
			s.p.mu.Unlock()
			return n, ErrRefClosed
		}
		seq := s.sendSeq
		s.sendSeq++
		s.p.mu.Unlock()
		if err := s.p.sendFrame(RefFrame{StreamID: s.ID, Seq: seq, Payload: b[n : n+k]}); err != nil {
			return n, err
		}
		n += k
	}
	return n, nil
}

func (s *RefStream) Close() error {
	s.p.mu.Lock()
	if s.wclosed {
		s.p.mu.Unlock()
		return nil
	}
	s.wclosed = true
	seq := s.sendSeq
	s.sendSeq++
	s.eof = true
	s.rq.Wake()
	s.p.mu.Unlock()
	pad := make([]byte, 1+s.p.rng.IntN(256))
	return s.p.sendFrame(RefFrame{StreamID: s.ID, Seq: seq, Closing: 1, Payload: pad})
}
