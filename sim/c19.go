package verifsim

import (
	"fmt"
	"io"
	"math"
	"sort"
	"time"

	mux "github.com/cbeuw/Cloak/internal/multiplex"
	"github.com/cbeuw/Cloak/internal/simsync"
)

// ---- C19: a limited user's throughput never exceeds the configured rates ----

type C19Scenario struct {
	RxRate      int64        `json:"rx_rate"` // client -> server, bytes/s
	TxRate      int64        `json:"tx_rate"` // server -> client, bytes/s
	Sessions    []SessParams `json:"sessions"`
	Streams     []int        `json:"streams"`    // streams per session
	UpBytes     int          `json:"up_bytes"`   // total client -> server, split over all streams
	DownBytes   int          `json:"down_bytes"` // total server -> client
	WriteSize   int          `json:"write_size"`
	PatKey      uint64       `json:"pat_key"`
	ZeroLatency bool         `json:"zero_latency"`
	// CloseAtMS > 0: at that virtual time the first session is closed by
	// CloseSide (0 client, 1 server) while its senders are backlogged; whatever
	// still reaches the wire afterwards stays inside the envelope
	CloseAtMS int `json:"close_at_ms,omitempty"`
	CloseSide int `json:"close_side,omitempty"`
	// PaceMS > 0: the server-side writers pause that long (virtual) after every
	// write - a source that offers more than the rate, but not infinitely fast,
	// so that the limiter's bucket is partly refilled whenever it is asked
	PaceMS int `json:"pace_ms,omitempty"`
}

func logUniform(g *Gen, lo, hi float64) int64 {
	return int64(lo * math.Pow(hi/lo, g.Rng.Float64()))
}

func genC19(g *Gen) any {
	sc := &C19Scenario{PatKey: g.Rng.Uint64()}
	sc.RxRate = logUniform(g, 16640, 1e7)
	sc.TxRate = logUniform(g, 16640, 1e7)
	np := g.Int(1, 3)
	for i := 0; i < np; i++ {
		p := SessParams{Method: byte(g.Int(0, 3)), NConn: g.Int(1, 4), InactS: 3600}
		sc.Sessions = append(sc.Sessions, p)
		sc.Streams = append(sc.Streams, g.Int(1, 4))
	}
	dur := float64(g.Int(2, 25))
	sc.UpBytes = int(minf(400000, float64(sc.RxRate)*dur))
	sc.DownBytes = int(minf(400000, float64(sc.TxRate)*dur))
	if g.Bool(0.2) {
		sc.UpBytes = 0
	} else if g.Bool(0.2) {
		sc.DownBytes = 0
	}
	sc.WriteSize = g.Pick(700, 3000, 16000, 40000)
	sc.ZeroLatency = g.Bool(0.5)
	if g.Bool(0.25) {
		// many backlogged streams on a slow user, then the session is closed
		sc.RxRate = logUniform(g, 16640, 200000)
		sc.TxRate = logUniform(g, 16640, 200000)
		sc.Streams[0] = g.Int(4, 14)
		sc.UpBytes, sc.DownBytes = 400000, 400000
		sc.WriteSize = g.Pick(3000, 16000, 40000)
		sc.CloseAtMS = g.Pick(1, 500, 1500, 3000, g.Int(1, 5000))
		sc.CloseSide = g.Int(0, 1)
	} else if g.Bool(0.15) {
		// one paced, overdriving sender: frame-sized writes every PaceMS, offered
		// at 1.5..4 times the rate, for 25 s: still served at the rate
		sc.TxRate = logUniform(g, 16640, 100000)
		sc.Sessions, sc.Streams = sc.Sessions[:1], []int{1}
		sc.UpBytes, sc.WriteSize = 0, 16000
		sc.PaceMS = int(16000 * 1000 / (float64(sc.TxRate) * []float64{1.5, 2, 4}[g.Rng.IntN(3)]))
		sc.DownBytes = int(sc.TxRate) * 25
	}
	return sc
}

func minf(a, b float64) float64 {
	if a < b {
		return a
	}
	return b
}

type rateEvent struct {
	at time.Duration
	n  int64
}

// checkEnvelope verifies bytes(t1,t2] <= rate*(t2-t1)*1.01 + burst for every pair of events.
func checkEnvelope(ev []rateEvent, rate int64) (bool, string) {
	return checkEnvelopeN(ev, rate, 1)
}

// checkEnvelopeN allows that many bursts (one per incarnation of the limiter).
func checkEnvelopeN(ev []rateEvent, rate int64, bursts int) (bool, string) {
	sort.SliceStable(ev, func(i, j int) bool { return ev[i].at < ev[j].at })
	burst := float64(rate) * float64(bursts) // one second's worth each
	for i := range ev {
		var sum int64
		for j := i; j < len(ev); j++ {
			sum += ev[j].n
			dt := (ev[j].at - ev[i].at).Seconds()
			allowed := float64(rate)*dt*1.01 + burst
			if float64(sum) > allowed+1 {
				return false, fmt.Sprintf("%d bytes between t=%v and t=%v (%.6fs): allowed %.0f at %d B/s plus %d second(s) of burst", sum, ev[i].at, ev[j].at, dt, allowed, rate, bursts)
			}
		}
	}
	return true, ""
}

func runC19(c *Ctx, scAny any) {
	sc := scAny.(*C19Scenario)
	c.Net.TapOn = true
	c.Net.LogReads = true
	valve := mux.MakeValve(sc.RxRate, sc.TxRate)
	var worlds []*SessWorld
	nstreams := 0
	for i, p := range sc.Sessions {
		worlds = append(worlds, NewSessWorld(c, p, nil, valve))
		nstreams += sc.Streams[i]
	}
	upPer, downPer := sc.UpBytes/nstreams, sc.DownBytes/nstreams
	var rx []rateEvent
	pending := 0
	closedWorld := -1 // index of the session the workload closed
	// an error on a stream of the session that was closed on purpose is expected
	fail := func(wi int, sig string, err error) {
		if wi == closedWorld {
			return
		}
		c.Fail("rate", sig, "%v", err)
	}
	start := c.W.Elapsed()
	var lastUp, lastDown time.Duration
	for wi, sw := range worlds {
		wi, sw := wi, sw
		simsync.Go("h:accept", func() {
			for {
				conn, err := sw.S.Accept()
				if err != nil {
					return
				}
				simsync.Go("h:srv", func() {
					hdr := make([]byte, 1)
					if _, err := io.ReadFull(conn, hdr); err != nil {
						fail(wi, "error:read", err)
						return
					}
					simsync.Go("h:srv-w", func() {
						defer func() { pending-- }()
						buf := make([]byte, sc.WriteSize)
						for off := 0; off < downPer; off += len(buf) {
							k := min(len(buf), downPer-off)
							if _, err := conn.Write(buf[:k]); err != nil {
								fail(wi, "error:write", err)
								return
							}
							if sc.PaceMS > 0 {
								Sleep(time.Duration(sc.PaceMS) * time.Millisecond)
							}
						}
					})
					buf := make([]byte, 32768)
					got := 0
					for got < upPer {
						n, err := conn.Read(buf)
						if n > 0 {
							rx = append(rx, rateEvent{c.W.Elapsed(), int64(n)})
							got += n
							lastUp = c.W.Elapsed()
						}
						if err != nil {
							fail(wi, "error:read", err)
							return
						}
					}
					pending--
				})
			}
		})
		for s := 0; s < sc.Streams[wi]; s++ {
			pending += 4
			simsync.Go("h:cli", func() {
				st, err := sw.C.OpenStream()
				if err != nil {
					fail(wi, "error:open", err)
					return
				}
				if _, err := st.Write([]byte{1}); err != nil {
					fail(wi, "error:write", err)
					return
				}
				simsync.Go("h:cli-w", func() {
					defer func() { pending-- }()
					buf := make([]byte, sc.WriteSize)
					for off := 0; off < upPer; off += len(buf) {
						k := min(len(buf), upPer-off)
						if _, err := st.Write(buf[:k]); err != nil {
							fail(wi, "error:write", err)
							return
						}
					}
				})
				buf := make([]byte, 32768)
				got := 0
				for got < downPer {
					n, err := st.Read(buf)
					got += n
					if n > 0 {
						lastDown = c.W.Elapsed()
					}
					if err != nil {
						fail(wi, "error:read", err)
						return
					}
				}
				pending--
			})
		}
	}
	if sc.CloseAtMS > 0 {
		simsync.Go("h:closer", func() {
			Sleep(time.Duration(sc.CloseAtMS) * time.Millisecond)
			closedWorld = 0
			if sc.CloseSide == 0 {
				worlds[0].C.Close()
			} else {
				worlds[0].S.Close()
			}
		})
	}
	end := c.Drive(func() bool { return pending == 0 })
	if c.Failed() {
		return
	}
	if closedWorld >= 0 && end == simsync.EndQuiescent {
		end = simsync.EndDone // tasks of the closed session ended early; judge what reached the wire
	}
	if end == simsync.EndQuiescent && pending > 0 {
		c.Fail("rate", "stuck", "traffic stuck at final quiescence\n%s", c.W.DumpTasks())
		return
	}
	if end != simsync.EndDone {
		return
	}
	// server -> client: every record the server put on the wire, metered bytes = message length
	var tx []rateEvent
	for _, sw := range worlds {
		keys := map[string]bool{}
		for _, l := range sw.Links {
			keys[l.Dir[1].Key] = true
		}
		for _, e := range c.Net.Tap {
			if keys[e.Pipe] {
				tx = append(tx, rateEvent{e.At, int64(e.N - 5)})
			}
		}
	}
	if ok, why := checkEnvelope(tx, sc.TxRate); !ok {
		c.Fail("rate", "tx-exceeded", "server -> client across %d sessions: %s", len(worlds), why)
		return
	}
	// client -> server. Cloak reads a record, then waits for its tokens, then
	// processes it and reads again: a record has passed the limiter at the
	// moment of the first Read call made after the record was consumed.
	// (Application-level read times are not usable per interval: reordering
	// across connections holds bytes back and releases them in bursts behind
	// the limiter. They are bounded from time zero only.)
	var passed []rateEvent
	for _, sw := range worlds {
		for _, l := range sw.Links {
			p := l.Dir[0]
			calls := l.Ends[1].ReadCalls
			ci := 0
			prev := 0
			for _, end := range p.Bounds {
				for ci < len(calls) && calls[ci].ConsumedBefore < int64(end) {
					ci++
				}
				if ci == len(calls) {
					break
				}
				passed = append(passed, rateEvent{calls[ci].At, int64(end - prev - 5)})
				prev = end
			}
		}
	}
	if ok, why := checkEnvelope(passed, sc.RxRate); !ok {
		c.Fail("rate", "rx-exceeded", "client -> server (records released by the limiter) across %d sessions: %s", len(worlds), why)
		return
	}
	{
		// from time zero the application can never have received more than the envelope
		sort.SliceStable(rx, func(i, j int) bool { return rx[i].at < rx[j].at })
		var sum int64
		for _, e := range rx {
			sum += e.n
			if allowed := float64(sc.RxRate)*(e.at-start).Seconds()*1.01 + float64(sc.RxRate); float64(sum) > allowed+1 {
				c.Fail("rate", "rx-exceeded", "client -> server: the application had received %d bytes by t=%v, allowed %.0f", sum, e.at, allowed)
				return
			}
		}
	}
	// a backlogged sender is not held below the rate (deliveries take no virtual
	// time in this world, so the network never is the bottleneck)
	{
		check := func(dir string, total int, last time.Duration, rate int64) {
			dur := (last - start).Seconds()
			if dur >= 20 {
				// the first second's burst is free: expect at least 95% of rate over the duration
				if float64(total) < 0.95*float64(rate)*dur {
					c.Fail("rate", "starved:"+dir, "%s: %d bytes took %.2fs of virtual time at %d B/s (a backlogged sender must get at least 95%% of the rate)", dir, total, dur, rate)
				}
				c.Probe("lower_bound_checked")
			}
		}
		if closedWorld >= 0 {
			c.Probe("closed_while_backlogged")
			return
		}
		check("down", downPer*nstreams, lastDown, sc.TxRate)
		if !c.Failed() {
			check("up", upPer*nstreams, lastUp, sc.RxRate)
		}
	}
	c.Probe(fmt.Sprintf("sessions_%d", len(worlds)))
}

func init() {
	register(&Family{Name: "c19-rates", Count: func(tier string) int { return map[string]int{"quick": 600, "thorough": 20000}[tier] },
		Gen: genC19, New: func() any { return &C19Scenario{} }, Run: runC19,
		MaxSteps: 3000000,
		Policy: func(g *Gen) simsync.PolicyConfig {
			p := SwarmPolicy(g)
			p.Stall = 0 // time passes only when nothing can run: no thread stall between token wait and write
			return p
		}})
	plans["C19"] = []string{"c19-rates"}
}
