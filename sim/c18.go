package verifsim

import (
	"bufio"
	"bytes"
	"encoding/base64"
	"encoding/json"
	"fmt"
	"io"
	"math"
	"net/http"
	"net/http/httptest"
	"sort"
	"time"

	"github.com/cbeuw/Cloak/internal/common"
	mux "github.com/cbeuw/Cloak/internal/multiplex"
	"github.com/cbeuw/Cloak/internal/server"
	"github.com/cbeuw/Cloak/internal/server/usermanager"
	"github.com/cbeuw/Cloak/internal/simsync"
	"github.com/cbeuw/Cloak/verifsim/simnet"
)

// ---- C18: user database and admin API act as a keyed store and never crash the server ----

type C18Op struct {
	Kind string `json:"kind"` // post | get | list | delete | reopen | badjson | mismatch | badb64 | direct-write | direct-delete
	User int    `json:"user"`
	// Fields: which of the six optional fields are present (bit i) and their values
	Mask   int      `json:"mask,omitempty"`
	Values [6]int64 `json:"values,omitempty"`
}

type C18Scenario struct {
	Ops  []C18Op `json:"ops"`
	Seed uint64  `json:"seed"`
	// UIDShape: 0 = three unrelated 16-byte UIDs; 1 = user 1's UID is user 0's
	// followed by four more bytes, user 2's has 8 bytes (the API takes any length;
	// only 16-byte UIDs can ever connect); 2 = user 1's UID is user 0's first 12 bytes
	UIDShape int `json:"uid_shape,omitempty"`
	// ViaTunnel: the admin client is the shipped ck-client main() started with
	// -a <admin UID>; every API request travels as its own local TCP connection
	// through a real admin session (session id 0) to the server's dispatcher,
	// which serves the API with net/http on top of the multiplexed session
	ViaTunnel bool `json:"via_tunnel,omitempty"`
}

var c18Fields = []string{"SessionsCap", "UpRate", "DownRate", "UpCredit", "DownCredit", "ExpiryTime"}

func c18Value(g *Gen, field int) int64 {
	if field == 0 {
		return int64(int32(g.Pick(0, 1, -1, 2, math.MaxInt32, math.MinInt32, int(g.Rng.Int32()))))
	}
	switch g.Int(0, 7) {
	case 0:
		return 0
	case 1:
		return -1
	case 2:
		return 1
	case 3:
		return math.MaxInt64
	case 4:
		return math.MinInt64
	case 5:
		return 4102444800 // a date in 2100 (useful as expiry)
	default:
		return g.Rng.Int64()>>uint(g.Int(0, 40)) - int64(g.Int(0, 3))
	}
}

func genC18(g *Gen) any {
	sc := &C18Scenario{Seed: g.Rng.Uint64(), UIDShape: g.Pick(0, 0, 0, 1, 2), ViaTunnel: g.Bool(0.2)}
	n := g.Int(1, 40)
	if g.Tier == "thorough" {
		n = g.Int(1, 400)
	}
	if sc.ViaTunnel {
		n = g.Int(1, 12) // every operation is followed by four reads, each a proxied connection
	}
	kinds := []string{"post", "post", "post", "post", "get", "get", "list", "delete", "reopen", "badjson", "mismatch", "badb64", "direct-write", "direct-delete"}
	for i := 0; i < n; i++ {
		op := C18Op{Kind: kinds[g.Rng.IntN(len(kinds))], User: g.Int(0, 2)}
		switch g.Int(0, 3) {
		case 0:
			op.Mask = 63
		case 1:
			op.Mask = 1 << g.Int(0, 5)
		default:
			op.Mask = g.Int(0, 63)
		}
		for f := 0; f < 6; f++ {
			op.Values[f] = c18Value(g, f)
		}
		sc.Ops = append(sc.Ops, op)
	}
	return sc
}

type c18Rec struct {
	set [6]bool
	val [6]int64
}

func (op C18Op) info(uid []byte) usermanager.UserInfo {
	u := usermanager.UserInfo{UID: uid}
	if op.Mask&1 != 0 {
		u.SessionsCap = usermanager.JustInt32(int32(op.Values[0]))
	}
	ptr := []*usermanager.MaybeInt64{&u.UpRate, &u.DownRate, &u.UpCredit, &u.DownCredit, &u.ExpiryTime}
	for f := 1; f < 6; f++ {
		if op.Mask&(1<<f) != 0 {
			*ptr[f-1] = usermanager.JustInt64(op.Values[f])
		}
	}
	return u
}

func (op C18Op) body(uid []byte) []byte {
	m := map[string]any{"UID": uid}
	for f := 0; f < 6; f++ {
		if op.Mask&(1<<f) != 0 {
			m[c18Fields[f]] = op.Values[f]
		}
	}
	b, _ := json.Marshal(m)
	return b
}

func infoVals(u usermanager.UserInfo) (v [6]int64, nilField string) {
	if u.SessionsCap == nil {
		return v, "SessionsCap"
	}
	v[0] = int64(*u.SessionsCap)
	ptr := []usermanager.MaybeInt64{u.UpRate, u.DownRate, u.UpCredit, u.DownCredit, u.ExpiryTime}
	for i, p := range ptr {
		if p == nil {
			return v, c18Fields[i+1]
		}
		v[i+1] = *p
	}
	return v, ""
}

func runC18(c *Ctx, scAny any) {
	sc := scAny.(*C18Scenario)
	w := NewSrvWorld(c, SrvParams{WithDB: true})
	defer w.Cleanup()
	uids := [][]byte{randBytes(c.Rng, 16), randBytes(c.Rng, 16), randBytes(c.Rng, 16)}
	switch sc.UIDShape {
	case 1:
		uids[1] = append(append([]byte(nil), uids[0]...), randBytes(c.Rng, 4)...)
		uids[2] = uids[2][:8]
	case 2:
		uids[1] = append([]byte(nil), uids[0][:12]...)
	}
	model := map[int]*c18Rec{}
	mgr := w.Mgr
	router := usermanager.APIRouterOf(mgr)
	dbPath := w.DBDir + "/userinfo.db"
	world := common.WorldState{Rand: rngReader{c.Rng}, Now: time.Now}
	finished := false
	do := func(method, path string, body []byte) *httptest.ResponseRecorder {
		var rd io.Reader
		if body != nil {
			rd = bytes.NewReader(body)
		}
		req := httptest.NewRequest(method, path, rd)
		rec := httptest.NewRecorder()
		router.ServeHTTP(rec, req)
		return rec
	}
	if sc.ViaTunnel {
		simsync.Go("h:serve", func() { server.Serve(w.Front, w.Sta) })
		prog := w.StartCkClient(c, ClientParams{UID: randBytes(c.Rng, 16), Method: "shadowsocks", Encryption: []string{"plain", "aes-gcm", "aes-128-gcm", "chacha20-poly1305"}[sc.Seed%4],
			Browser: []string{"chrome", "firefox", "safari"}[(sc.Seed>>4)%3], Transport: "direct", NumConn: int(sc.Seed>>8) % 5, ServerName: "www.bing.com"}, "-a", b64(w.Admin))
		do = func(method, path string, body []byte) *httptest.ResponseRecorder {
			rec := httptest.NewRecorder()
			prog.AwaitReady()
			if prog.Exit != "" {
				rec.Code = 597
				rec.Body.WriteString("ck-client exited: " + prog.Exit)
				return rec
			}
			d := &simnet.Dialer{Net: c.Net, LocalIP: "10.0.7.2", Tag: "app"}
			conn, err := d.Dial("tcp", prog.LocalAddr)
			if err != nil {
				rec.Code = 599
				rec.Body.WriteString(err.Error())
				return rec
			}
			defer conn.Close()
			req := fmt.Sprintf("%s %s HTTP/1.1\r\nHost: admin\r\nConnection: close\r\nContent-Length: %d\r\n\r\n", method, path, len(body))
			if _, err := conn.Write(append([]byte(req), body...)); err != nil {
				rec.Code = 598
				rec.Body.WriteString(err.Error())
				return rec
			}
			conn.SetReadDeadline(time.Now().Add(2 * time.Minute))
			resp, err := http.ReadResponse(bufio.NewReader(conn), nil)
			if err != nil {
				rec.Code = 598
				rec.Body.WriteString("no response through the admin session: " + err.Error())
				return rec
			}
			b, _ := io.ReadAll(resp.Body)
			rec.Code = resp.StatusCode
			rec.Body = bytes.NewBuffer(b)
			c.Probe("api_request_through_admin_session")
			return rec
		}
	}
	upath := func(u int) string { return "/admin/users/" + base64.URLEncoding.EncodeToString(uids[u]) }
	apply := func(u int, op C18Op) {
		r := model[u]
		if r == nil {
			r = &c18Rec{}
			model[u] = r
		}
		for f := 0; f < 6; f++ {
			if op.Mask&(1<<f) != 0 {
				r.set[f], r.val[f] = true, op.Values[f]
			}
		}
	}
	// compare every read the API offers with the model
	verify := func(step int, after string) bool {
		for u := 0; u < 3; u++ {
			rec := do("GET", upath(u), nil)
			want := model[u]
			if want == nil {
				if rec.Code != http.StatusNotFound {
					c.Fail("kv", "get-deleted", "step %d (%s): GET of user %d, which does not exist, answered %d %s", step, after, u, rec.Code, rec.Body.String())
					return false
				}
				continue
			}
			if rec.Code != http.StatusOK {
				c.Fail("kv", "get-status", "step %d (%s): GET of existing user %d answered %d %s", step, after, u, rec.Code, rec.Body.String())
				return false
			}
			var got usermanager.UserInfo
			if err := json.Unmarshal(rec.Body.Bytes(), &got); err != nil {
				c.Fail("kv", "get-body", "step %d: GET body does not parse: %v", step, err)
				return false
			}
			vals, missing := infoVals(got)
			if missing != "" {
				c.Fail("kv", "get-body", "step %d: GET of user %d has no %s", step, u, missing)
				return false
			}
			for f := 0; f < 6; f++ {
				wv := int64(0)
				if want.set[f] {
					wv = want.val[f]
				}
				if vals[f] != wv {
					c.Fail("kv", "wrong-value", "step %d (%s): user %d field %s reads %d, the operation sequence implies %d (set=%v)", step, after, u, c18Fields[f], vals[f], wv, want.set[f])
					return false
				}
			}
		}
		rec := do("GET", "/admin/users", nil)
		var list []usermanager.UserInfo
		if rec.Code != 200 || json.Unmarshal(rec.Body.Bytes(), &list) != nil {
			c.Fail("kv", "list-status", "step %d: list answered %d %s", step, rec.Code, rec.Body.String())
			return false
		}
		if len(list) != len(model) {
			c.Fail("kv", "list-count", "step %d (%s): list returns %d users, the operation sequence implies %d", step, after, len(list), len(model))
			return false
		}
		return true
	}
	// "owner connects / is listed / has usage uploaded": none of it may panic
	var key [32]byte
	obf, _ := mux.MakeObfuscator(mux.EncryptionMethodPlain, key)
	probe := func(step int) {
		var us []int
		for u := range model {
			us = append(us, u)
		}
		sort.Ints(us)
		for _, u := range us {
			if len(uids[u]) != 16 {
				continue // no client can present such a UID
			}
			user, err := w.Sta.Panel.GetUser(uids[u])
			if err == nil {
				if _, _, err := user.GetSession(5, mux.SessionConfig{Obfuscator: obf, InactivityTimeout: time.Hour}); err != nil {
					c.Probe("probe_session_refused")
				}
				user.CloseSession(5, "")
				c.Probe("probe_connected")
			} else {
				c.Probe("probe_refused")
			}
			if _, err := mgr.UploadStatus([]usermanager.StatusUpdate{{UID: uids[u], Active: true, NumSession: 1, UpUsage: 0, DownUsage: 0, Timestamp: time.Now().Unix()}}); err != nil {
				c.Probe("probe_upload_error")
			}
			// an upload (re)writes both credit fields
			r := model[u]
			r.set[3], r.set[4] = true, true
		}
		if _, err := mgr.ListAllUsers(); err != nil {
			c.Probe("probe_list_error")
		}
	}
	simsync.Go("h:admin", func() {
		defer func() { finished = true }()
		for i, op := range sc.Ops {
			u := op.User
			what := fmt.Sprintf("%s user %d mask %06b", op.Kind, u, op.Mask)
			switch op.Kind {
			case "post":
				rec := do("POST", upath(u), op.body(uids[u]))
				if rec.Code != http.StatusCreated {
					c.Fail("kv", "post-rejected", "step %d: valid POST (%s, values %v) answered %d %s", i, what, op.Values, rec.Code, rec.Body.String())
					return
				}
				apply(u, op)
			case "direct-write":
				if err := mgr.WriteUserInfo(op.info(uids[u])); err != nil {
					c.Fail("kv", "write-error", "step %d: WriteUserInfo: %v", i, err)
					return
				}
				apply(u, op)
			case "get", "list":
				// verify() below reads everything
			case "delete":
				rec := do("DELETE", upath(u), nil)
				if model[u] != nil && rec.Code != http.StatusOK {
					c.Fail("kv", "delete-status", "step %d: DELETE of existing user %d answered %d", i, u, rec.Code)
					return
				}
				delete(model, u)
			case "direct-delete":
				mgr.DeleteUser(uids[u])
				delete(model, u)
			case "badjson":
				rec := do("POST", upath(u), []byte(`{"UID":"`+base64.StdEncoding.EncodeToString(uids[u])+`","UpRate":"fast"`))
				if rec.Code < 400 {
					c.Fail("kv", "accepted-malformed", "step %d: malformed JSON answered %d", i, rec.Code)
					return
				}
			case "mismatch":
				// path names one user, body another: must be rejected and change neither
				other := (u + 1) % 3
				rec := do("POST", upath(u), op.body(uids[other]))
				if rec.Code < 400 {
					c.Fail("kv", "accepted-mismatch", "step %d: UID mismatch answered %d", i, rec.Code)
					return
				}
			case "badb64":
				rec := do("POST", "/admin/users/***notbase64***", op.body(uids[u]))
				if rec.Code < 400 {
					c.Fail("kv", "accepted-badb64", "step %d: bad base64 in the path answered %d", i, rec.Code)
					return
				}
			case "reopen":
				if sc.ViaTunnel {
					break // the admin session serves the manager it was started with
				}
				if cl, ok := mgr.(io.Closer); ok {
					cl.Close()
				}
				nm, err := usermanager.MakeLocalManager(dbPath, world)
				if err != nil {
					c.Fail("kv", "reopen", "step %d: reopening the database: %v", i, err)
					return
				}
				mgr = nm
				w.Mgr = nm
				w.Sta.Panel.Manager = nm
				router = usermanager.APIRouterOf(nm)
			}
			if !verify(i, what) {
				return
			}
			if op.Kind == "post" || op.Kind == "direct-write" || op.Kind == "reopen" || op.Kind == "mismatch" {
				probe(i)
				if !verify(i, what+" + probes") {
					return
				}
			}
		}
	})
	c.Drive(func() bool { return finished })
}

func init() {
	register(&Family{Name: "c18-kv", Count: func(tier string) int { return map[string]int{"quick": 1500, "thorough": 30000}[tier] },
		Gen: genC18, New: func() any { return &C18Scenario{} }, Run: runC18, VirtCap: 3 * time.Hour, MaxSteps: 4000000,
		Policy: func(g *Gen) simsync.PolicyConfig { return simsync.PolicyConfig{Kind: "rtb", NetOrder: "fifo"} }})
	plans["C18"] = []string{"c18-kv"}
}
