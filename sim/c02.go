package verifsim

import (
	"bytes"
	"fmt"
	"io"

	mux "github.com/cbeuw/Cloak/internal/multiplex"
	"github.com/cbeuw/Cloak/internal/simsync"
)

// ---- C02: reassembly is independent of arrival order ----

type C02Scenario struct {
	N       int    `json:"n"`
	Order   []int  `json:"order"`   // arrival order: Order[k] = index (0..n-1) of the k-th arriving frame
	Closing bool   `json:"closing"` // the highest-numbered frame is a closing frame
	Reader  int    `json:"reader"`  // 0 read after all; 1 drain after each arrival; 2 concurrent reader task
	Start   uint64 `json:"start"`   // first sequence number
	Sizes   []int  `json:"sizes"`
	PatKey  uint64 `json:"pat_key"`
	ReadBuf int    `json:"read_buf"`
	// Assign (reader policy 2 only): arrival k is delivered by task Assign[k];
	// each task (a connection's receive loop) delivers its arrivals in order,
	// the tasks run concurrently. nil: one task delivers everything.
	Assign []int `json:"assign,omitempty"`
}

var factorials = []int{1, 1, 2, 6, 24, 120, 720, 5040}

func nthPerm(n, k int) []int {
	elems := make([]int, n)
	for i := range elems {
		elems[i] = i
	}
	out := make([]int, 0, n)
	for i := n; i >= 1; i-- {
		f := factorials[i-1]
		j := k / f
		k %= f
		out = append(out, elems[j])
		elems = append(elems[:j], elems[j+1:]...)
	}
	return out
}

func c02MaxN(tier string) int {
	if tier == "thorough" {
		return 6
	}
	return 5
}

func c02EnumCount(tier string) int {
	t := 0
	for n := 1; n <= c02MaxN(tier); n++ {
		t += factorials[n] * 2 * 3 * 3
	}
	return t
}

func genC02Enum(g *Gen) any {
	i := g.Idx
	n := 1
	for ; ; n++ {
		c := factorials[n] * 18
		if i < c {
			break
		}
		i -= c
	}
	sc := &C02Scenario{N: n, PatKey: g.Rng.Uint64()}
	sc.Reader = i % 3
	i /= 3
	startClass := i % 3
	i /= 3
	sc.Closing = i%2 == 1
	i /= 2
	sc.Order = nthPerm(n, i)
	switch startClass {
	case 0:
		sc.Start = 0
	case 1:
		sc.Start = 1<<32 - 3
	default:
		sc.Start = ^uint64(0) - uint64(n) - 1
	}
	for k := 0; k < n; k++ {
		sc.Sizes = append(sc.Sizes, g.Pick(1, 1, 2, 7, 40, 300))
	}
	sc.ReadBuf = g.Pick(1, 3, 64, 4096)
	return sc
}

func genC02Sampled(g *Gen) any {
	if g.Bool(0.15) {
		// a frame that lags hundreds of frames behind (a slow connection while the
		// others keep delivering): tiny payloads, large reorder distance
		n := g.Int(200, 700)
		sc := &C02Scenario{N: n, PatKey: g.Rng.Uint64(), Reader: g.Int(0, 2), Closing: g.Bool(0.5), ReadBuf: 70000}
		late := g.Pick(0, 0, 1, g.Int(0, n/4))
		for i := 0; i < n; i++ {
			if i != late {
				sc.Order = append(sc.Order, i)
			}
		}
		at := g.Pick(n-1, n-1, g.Int(n/2, n-1))
		sc.Order = append(sc.Order[:at], append([]int{late}, sc.Order[at:]...)...)
		sc.Start = []uint64{0, 1<<32 - 100, ^uint64(0) - uint64(n) - 1}[g.Rng.IntN(3)]
		for k := 0; k < n; k++ {
			sc.Sizes = append(sc.Sizes, g.Int(1, 8))
		}
		return sc
	}
	n := g.Int(6, 64)
	sc := &C02Scenario{N: n, PatKey: g.Rng.Uint64(), Reader: g.Int(0, 2), Closing: g.Bool(0.5)}
	sc.Order = g.Rng.Perm(n)
	if g.Bool(0.3) {
		// mostly in order with a few displaced frames
		for i := range sc.Order {
			sc.Order[i] = i
		}
		for k := 0; k < g.Int(1, 4); k++ {
			a, b := g.Rng.IntN(n), g.Rng.IntN(n)
			sc.Order[a], sc.Order[b] = sc.Order[b], sc.Order[a]
		}
	}
	sc.Start = []uint64{0, 1<<32 - 3, 1<<32 - uint64(n/2), ^uint64(0) - uint64(n) - 1, g.Rng.Uint64() >> 1}[g.Rng.IntN(5)]
	for k := 0; k < n; k++ {
		sc.Sizes = append(sc.Sizes, g.Pick(1, 2, 7, 40, 300, 1500, g.Int(1, 16000), 0)) // (0: an empty data frame, as Stream.ReadFrom emits for a reader's (0, nil))
	}
	if g.Bool(0.3) {
		// payloads at and beyond what this build's own sender emits, up to what a
		// receiver's connection buffer (20480 bytes a message) lets through
		for k := g.Int(1, 3); k > 0; k-- {
			sc.Sizes[g.Rng.IntN(n)] = g.Pick(16132, 16371, 16384, 16626, 16627, 18000, 20000, 20466)
		}
	}
	sc.ReadBuf = g.Pick(1, 3, 64, 4096, 70000)
	if g.Bool(0.35) {
		// frames arrive on 2..4 connections whose receive loops run concurrently
		sc.Reader = 2
		nt := g.Int(2, 4)
		for k := 0; k < n; k++ {
			sc.Assign = append(sc.Assign, g.Rng.IntN(nt))
		}
	}
	if sc.ReadBuf < 64 {
		// tiny read buffers: keep the byte count (hence the step count) small
		for k := range sc.Sizes {
			sc.Sizes[k] = min(sc.Sizes[k], 40)
		}
	}
	return sc
}

func runC02(c *Ctx, scAny any) {
	sc := scAny.(*C02Scenario)
	sb := mux.VerifNewStreamBuffer(sc.Start)
	n := sc.N
	last := n - 1
	var want []byte
	payloads := make([][]byte, n)
	for i := 0; i < n; i++ {
		payloads[i] = make([]byte, sc.Sizes[i])
		fillPat(payloads[i], sc.PatKey, uint32(i), 0, 0)
		if !(sc.Closing && i == last) {
			want = append(want, payloads[i]...)
		}
	}
	// when must Write report "to be closed"? at the arrival that completes 0..last
	closeAt := -1
	if sc.Closing {
		arrived := make([]bool, n)
		for k, idx := range sc.Order {
			arrived[idx] = true
			all := true
			for _, a := range arrived {
				all = all && a
			}
			if all {
				closeAt = k
				break
			}
		}
	}
	var got []byte
	closes := 0
	arrive := func(k int) bool {
		idx := sc.Order[k]
		// the payload aliases a buffer the caller reuses right after Write returns
		// (one buffer per delivering task, as each connection's receive loop has)
		shared := make([]byte, len(payloads[idx]))
		p := shared
		copy(p, payloads[idx])
		f := &mux.Frame{StreamID: 1, Seq: sc.Start + uint64(idx), Payload: p}
		if sc.Closing && idx == last {
			f.Closing = mux.VerifClosingStream
		}
		toBeClosed, err := sb.Write(f)
		for i := range p {
			p[i] = 0xEE
		}
		if err != nil {
			c.Fail("reassembly", "write-error", "arrival %d (frame %d of %d, order %v): Write returned %v", k, idx, n, sc.Order, err)
			return false
		}
		if sc.Assign != nil {
			// concurrent deliverers: "the arrival that completes the prefix" is not
			// defined by position; exactly one Write must report the close, and the
			// byte comparison below shows whether it took effect too early
			if toBeClosed {
				closes++
				if closes > 1 || !sc.Closing {
					c.Fail("reassembly", "close-timing", "arrival %d (frame %d): Write reported toBeClosed a second time or without a closing frame", k, idx)
					return false
				}
				sb.Close()
			}
			return true
		}
		if toBeClosed != (k == closeAt) {
			c.Fail("reassembly", "close-timing", "arrival %d (frame %d, order %v, closing frame is %d): Write reported toBeClosed=%v, expected %v (the close must take effect exactly when every lower-numbered frame has been handed over)", k, idx, sc.Order, last, toBeClosed, k == closeAt)
			return false
		}
		if toBeClosed {
			sb.Close() // what Stream.recvFrame -> passiveClose does
		}
		return true
	}
	buf := make([]byte, sc.ReadBuf)
	drain := func() {
		for sb.Buffered() > 0 {
			m, err := sb.Read(buf[:min(len(buf), sb.Buffered())])
			got = append(got, buf[:m]...)
			if err != nil {
				return
			}
		}
	}
	switch sc.Reader {
	case 0, 1:
		for k := range sc.Order {
			if !arrive(k) {
				return
			}
			if sc.Reader == 1 {
				drain()
			}
		}
		drain()
	case 2:
		done := 0
		ntasks := 1
		for _, a := range sc.Assign {
			ntasks = max(ntasks, a+1)
		}
		for t := 0; t < ntasks; t++ {
			t := t
			simsync.Go("h:arrivals", func() {
				defer func() { done++ }()
				for k := range sc.Order {
					if sc.Assign != nil && sc.Assign[k] != t {
						continue
					}
					if !arrive(k) {
						return
					}
				}
			})
		}
		simsync.Go("h:reader", func() {
			defer func() { done++ }()
			for len(got) < len(want) {
				m, err := sb.Read(buf)
				got = append(got, buf[:m]...)
				if err != nil {
					if err != io.EOF {
						c.Fail("reassembly", "read-error", "Read returned %v", err)
					}
					return
				}
			}
		})
		end := c.Drive(func() bool { return done == ntasks+1 })
		if c.Failed() {
			return
		}
		if end == simsync.EndQuiescent && done < ntasks+1 {
			c.Fail("reassembly", "parked-forever", "order %v: reader still waits for data at final quiescence: got %d of %d bytes, %d frames parked", sc.Order, len(got), len(want), sb.Parked())
			return
		}
	}
	if c.Failed() {
		return
	}
	if !bytes.Equal(got, want) {
		i := 0
		for i < len(got) && i < len(want) && got[i] == want[i] {
			i++
		}
		c.Fail("reassembly", "wrong-bytes", "order %v (n=%d start=%d closing=%v reader=%d): application received %d bytes, expected %d; first difference at %d; %d frames still parked", sc.Order, n, sc.Start, sc.Closing, sc.Reader, len(got), len(want), i, sb.Parked())
		return
	}
	if sb.Parked() != 0 {
		c.Fail("reassembly", "parked-forever", "order %v: every frame arrived and was read but %d frames are still parked", sc.Order, sb.Parked())
	}
	_ = fmt.Sprint
}

func init() {
	rtb := func(g *Gen) simsync.PolicyConfig {
		p := SwarmPolicy(g)
		p.Stall = 0
		return p
	}
	register(&Family{Name: "c02-perms", Enumerated: true, Count: c02EnumCount, Gen: genC02Enum, New: func() any { return &C02Scenario{} }, Run: runC02, Policy: rtb})
	register(&Family{Name: "c02-sampled", Count: func(tier string) int { return map[string]int{"quick": 3000, "thorough": 200000}[tier] },
		Gen: genC02Sampled, New: func() any { return &C02Scenario{} }, Run: runC02, Policy: rtb})
	plans["C02"] = []string{"c02-perms", "c02-sampled", "c02-sess"}
}
