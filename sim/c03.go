package verifsim

import (
	"fmt"
	"io"
	"time"

	mux "github.com/cbeuw/Cloak/internal/multiplex"
	"github.com/cbeuw/Cloak/internal/simsync"
)

// ---- C03: close delivers everything written before it, then end-of-stream ----

type C03Stream struct {
	Up        int    `json:"up"`     // bytes the client writes (after the 8-byte tag)
	Down      int    `json:"down"`   // bytes the server writes
	Closer    int    `json:"closer"` // 0 client, 1 server, 2 both (each after its own writes)
	SizeClass int    `json:"size_class"`
	SizeSeed  uint64 `json:"size_seed"`
	ReadBuf   int    `json:"read_buf"`
	// LateRead: the closing side reads only after its own Close returned; what
	// had arrived locally before the close must still be readable
	LateRead bool `json:"late_read,omitempty"`
}

type C03Scenario struct {
	Sess    SessParams  `json:"sess"`
	PatKey  uint64      `json:"pat_key"`
	Streams []C03Stream `json:"streams"`
}

func genC03(g *Gen) any {
	sc := &C03Scenario{PatKey: g.Rng.Uint64()}
	sc.Sess = genSessParams(g, 8)
	sc.Sess.Stalls = nil
	ns := g.Int(1, 4)
	if g.Bool(0.25) {
		// narrow pipes: a write gets on only while the peer's read loop consumes
		sc.Sess.Window = g.Pick(256, 1024, 4096)
		sc.Sess.NConn = g.Int(1, 2)
		ns = g.Int(2, 4)
	}
	if g.Bool(0.2) {
		sc.Sess.Singleplex = true
		sc.Sess.NConn = 1
		sc.Sess.LateConns, sc.Sess.LateAfter, sc.Sess.Weights = false, nil, nil
		ns = 1
	}
	for i := 0; i < ns; i++ {
		st := C03Stream{Closer: g.Int(0, 2), SizeClass: g.Int(0, 4), SizeSeed: g.Rng.Uint64(), ReadBuf: g.Pick(1, 7, 512, 3000, 16384, 40000)}
		lim := min(20000, 100*st.ReadBuf)
		if st.SizeClass == 0 {
			lim = min(lim, 300)
		}
		st.Up = g.Pick(0, 0, 1, g.Int(0, lim), g.Int(0, lim))
		st.Down = g.Pick(0, 0, 1, g.Int(0, lim), g.Int(0, lim))
		st.LateRead = g.Bool(0.3)
		if sc.Sess.Singleplex {
			// closing the only stream of a singleplex session closes its
			// connection: like any TCP application the closer first consumes
			// what the peer sent (see runC03), and only one side closes
			st.LateRead = false
			st.Closer = g.Int(0, 1)
		}
		sc.Streams = append(sc.Streams, st)
	}
	return sc
}

type c03End struct {
	started  bool
	returned bool
	n        int   // verified bytes read
	err      error // error that ended the reading
	bad      string
	hadLocal int // bytes buffered locally just before a local Close (LateRead)
	inCall   string
	total    int
	gotAll   chan struct{} // closed once n reaches total
	retAt    time.Duration // virtual time at which the reading ended
	closedAt time.Duration // virtual time at which this side's Close returned (-1: it has not)
}

func (e *c03End) progress() {
	if e.gotAll != nil && e.n >= e.total {
		close(e.gotAll)
		e.gotAll = nil
	}
}

type c03State struct {
	plan      C03Stream
	tag       uint32
	ends      [2]c03End // 0 client reader (reads Down), 1 server reader (reads Up)
	writers   int       // running writer tasks
	postWrite [2]string // result of the Write attempted after close was observed
}

func c03Read(c *Ctx, r io.Reader, key uint64, tag uint32, dir, total, bufSize int, e *c03End) {
	buf := make([]byte, bufSize)
	for {
		e.inCall = "Read"
		m, err := r.Read(buf)
		e.inCall = ""
		if m > 0 {
			if e.n+m > total {
				e.bad = fmt.Sprintf("read %d bytes beyond the %d written", e.n+m-total, total)
				e.n += m
			} else if i := checkPat(buf[:m], key, tag, dir, e.n); i >= 0 {
				e.bad = fmt.Sprintf("byte at offset %d differs from what was written", e.n+i)
				e.n += m
			} else {
				e.n += m
				e.progress()
			}
		}
		if err != nil || e.bad != "" {
			e.err = err
			e.returned = true
			e.retAt = c.W.Elapsed()
			return
		}
	}
}

func runC03(c *Ctx, scAny any) {
	sc := scAny.(*C03Scenario)
	sw := NewSessWorld(c, sc.Sess, nil, nil)
	limit := sc.Sess.WireLimit
	if limit <= 0 {
		limit = 16640
	}
	wl := &streamWorkload{c: c, key: sc.PatKey, limit: limit - 14 - 255}
	states := make([]*c03State, len(sc.Streams))
	for i, p := range sc.Streams {
		states[i] = &c03State{plan: p, tag: uint32(i)}
		states[i].ends[0].closedAt, states[i].ends[1].closedAt = -1, -1
	}
	// side: 0 client, 1 server. dirs: client writes dir 0, server writes dir 1.
	side := func(st *c03State, who int, stream *mux.Stream, alreadyRead int) {
		mine, theirs := st.plan.Up, st.plan.Down
		if who == 1 {
			mine, theirs = st.plan.Down, st.plan.Up
		}
		closes := st.plan.Closer == who || st.plan.Closer == 2
		e := &st.ends[who]
		e.started = true
		e.total = theirs
		var gotAll chan struct{}
		if sc.Sess.Singleplex && closes {
			gotAll = make(chan struct{})
			e.gotAll = gotAll
			e.progress()
		}
		late := closes && st.plan.LateRead
		if !late {
			simsync.Go("h:reader", func() {
				c03Read(c, stream, sc.PatKey, st.tag, 1-who, theirs, st.plan.ReadBuf, e)
				// the peer's close has been processed (or we closed): writes must fail now
				if e.err != nil {
					if _, err := stream.Write([]byte{0x55}); err == nil {
						st.postWrite[who] = "Write succeeded after Read had reported the end of the stream"
					}
				}
			})
		}
		st.writers++
		simsync.Go("h:writer", func() {
			defer func() { st.writers-- }()
			ss := &streamState{plan: StreamPlan{SizeClass: st.plan.SizeClass, SizeSeed: st.plan.SizeSeed}, tag: st.tag}
			ok := true
			if who == 0 {
				if _, err := stream.Write(putTag(st.tag)); err != nil {
					ok = false
				}
			}
			if ok {
				ok = writePatQuiet(wl, stream, ss, who, mine)
			}
			if !closes {
				return
			}
			if !ok {
				// our writes failed because the peer's close was processed first
				// (possible when both sides close): nothing more to do
				if late {
					c03Read(c, stream, sc.PatKey, st.tag, 1-who, theirs, st.plan.ReadBuf, e)
				}
				return
			}
			if late {
				for _, s := range digestOf(stream, sw, who) {
					e.hadLocal = s
				}
			}
			if gotAll != nil {
				Await(gotAll) // singleplex: consume the peer's data before closing the connection
			}
			e.inCall = "Close"
			stream.Close()
			e.inCall = ""
			e.closedAt = c.W.Elapsed()
			if _, err := stream.Write([]byte{0x55}); err == nil {
				st.postWrite[who] = "Write succeeded after a local Close"
			}
			if late {
				c03Read(c, stream, sc.PatKey, st.tag, 1-who, theirs, st.plan.ReadBuf, e)
			}
		})
	}
	simsync.Go("h:accept", func() {
		for {
			conn, err := sw.S.Accept()
			if err != nil {
				return
			}
			simsync.Go("h:acceptor", func() {
				tagb := make([]byte, tagLen)
				if _, err := io.ReadFull(conn, tagb); err != nil {
					// a stream closed before its tag arrived whole cannot happen: the tag is written first
					c.Fail("close-order", "early-eos", "server could not read the 8-byte tag of an accepted stream: %v", err)
					return
				}
				tag, ok := getTag(tagb)
				if !ok || int(tag) >= len(states) {
					c.Fail("stream-data", "data:mismatch", "accepted stream starts with %x", tagb)
					return
				}
				side(states[tag], 1, conn.(*mux.Stream), tagLen)
			})
		}
	})
	for _, st := range states {
		st := st
		simsync.Go("h:opener", func() {
			stream, err := sw.C.OpenStream()
			if err != nil {
				if sc.Sess.Singleplex {
					return
				}
				c.Fail("stream-error", "error:open", "OpenStream: %v", err)
				return
			}
			side(st, 0, stream, 0)
		})
	}
	done := func() bool {
		for _, st := range states {
			if !st.ends[0].returned || !st.ends[1].returned || st.writers > 0 {
				return false
			}
		}
		return true
	}
	end := c.Drive(done)
	if c.Failed() {
		return
	}
	for _, st := range states {
		for who := 0; who < 2; who++ {
			e := &st.ends[who]
			theirs := st.plan.Down
			if who == 1 {
				theirs = st.plan.Up
			}
			name := [2]string{"client", "server"}[who]
			closes := st.plan.Closer == who || st.plan.Closer == 2
			if e.bad != "" {
				c.Fail("stream-data", "data:mismatch", "stream %d, %s: %s", st.tag, name, e.bad)
				return
			}
			if !e.returned {
				if end == simsync.EndQuiescent {
					if !e.started && who == 1 {
						c.Fail("close-order", "lost-stream", "stream %d: the server never saw the stream although the client wrote %d bytes and closed it\n%s", st.tag, st.plan.Up+tagLen, c.W.DumpTasks())
					} else {
						c.Fail("close-liveness", "reader-blocked", "stream %d, %s: still blocked in %s at final quiescence after the stream was closed (read %d of %d)\n%s", st.tag, name, e.inCall, e.n, theirs, c.W.DumpTasks())
					}
					return
				}
				continue
			}
			if e.err != mux.ErrBrokenStream {
				c.Fail("close-order", "wrong-error", "stream %d, %s: reading ended with %v, want the broken-stream error", st.tag, name, e.err)
				return
			}
			if peer := &st.ends[1-who]; !closes && peer.closedAt >= 0 && e.retAt > peer.closedAt+500*time.Millisecond {
				// No connection is stalled in these worlds and virtual time only passes when
				// nothing can run: the end of the stream must reach a waiting reader at the
				// virtual instant of the Close. A reader released later was released by
				// something else (the session's inactivity timer closing a session that
				// looks idle to the closer) - the close itself never told the peer.
				c.Fail("close-liveness", "eos-late", "stream %d, %s: the peer's Close returned at %v, but the reader waiting on this side was only released at %v with %v (%d of %d bytes read): the close was not announced to the peer", st.tag, name, peer.closedAt, e.retAt, e.err, e.n, theirs)
				return
			}
			if !closes {
				// the side that did not close must have read everything
				if e.n != theirs {
					c.Fail("close-order", "early-eos", "stream %d, %s (did not close the stream): read %d of the %d bytes written before the peer's Close, then %v", st.tag, name, e.n, theirs, e.err)
					return
				}
			} else if st.plan.LateRead && e.n < min(e.hadLocal, theirs) {
				c.Fail("close-order", "local-bytes-lost", "stream %d, %s: %d bytes had already arrived locally before the local Close but only %d were readable afterwards", st.tag, name, e.hadLocal, e.n)
				return
			}
			if st.postWrite[who] != "" {
				c.Fail("close-order", "write-after-close", "stream %d, %s: %s", st.tag, name, st.postWrite[who])
				return
			}
		}
	}
	if end == simsync.EndQuiescent && !done() {
		c.Fail("close-liveness", "writer-blocked", "a writer or closer is still blocked at final quiescence\n%s", c.W.DumpTasks())
	}
}

// writePatQuiet is writePat without failing the run on a write error.
func writePatQuiet(wl *streamWorkload, w io.Writer, st *streamState, dir, n int) bool {
	ss := &sizeSeq{class: st.plan.SizeClass, limit: wl.limit, x: st.plan.SizeSeed + uint64(dir)}
	off := 0
	for off < n {
		k := ss.next()
		if off+k > n {
			k = n - off
		}
		buf := make([]byte, k)
		fillPat(buf, wl.key, st.tag, dir, off)
		_, err := w.Write(buf)
		if err != nil {
			return false
		}
		off += k
	}
	return true
}

// digestOf returns the number of bytes buffered locally for stream (as a
// one-element slice; empty if the stream is not in the table any more).
func digestOf(stream *mux.Stream, sw *SessWorld, who int) []int {
	sesh := sw.C
	if who == 1 {
		sesh = sw.S
	}
	streams, _, _, _ := sesh.VerifDigest()
	for _, s := range streams {
		if s.ID == stream.VerifID() {
			return []int{s.Buffered}
		}
	}
	return nil
}

func init() {
	register(&Family{
		Name:  "c03-close",
		Count: func(tier string) int { return map[string]int{"quick": 4000, "thorough": 120000}[tier] },
		Gen:   genC03,
		New:   func() any { return &C03Scenario{} },
		Run:   runC03,
		Policy: func(g *Gen) simsync.PolicyConfig {
			p := SwarmPolicy(g)
			p.Stall = 0
			return p
		},
	})
	plans["C03"] = []string{"c03-close"}
}
