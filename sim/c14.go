package verifsim

import (
	"bytes"
	"encoding/binary"
	"fmt"
	"io"
	"sort"
	"time"

	mux "github.com/cbeuw/Cloak/internal/multiplex"
	"github.com/cbeuw/Cloak/internal/simsync"
)

// ---- C14: datagram mode keeps message boundaries and stream isolation ----

type C14Sender struct {
	Stream int   `json:"stream"`
	Side   int   `json:"side"` // 0 client -> server, 1 server -> client
	Sizes  []int `json:"sizes"`
}

type C14Scenario struct {
	Sess     SessParams  `json:"sess"`
	PatKey   uint64      `json:"pat_key"`
	NStreams int         `json:"nstreams"`
	Senders  []C14Sender `json:"senders"`
	// ReadBuf[side][stream]: buffer of the reader; a too small one must get
	// io.ErrShortBuffer and then the same datagram with an adequate buffer
	ReadBuf [2][]int `json:"read_buf"`
	// lagging readers: a reader waits ReaderLagMS (virtual) before its first
	// Read and again after every LagEvery datagrams, so that a backlog of
	// unread datagrams builds up behind it
	ReaderLagMS int `json:"reader_lag_ms,omitempty"`
	LagEvery    int `json:"lag_every,omitempty"`
}

const dgHdr = 8

func dgBytes(key uint64, stream, sender, idx, n int) []byte {
	b := make([]byte, n)
	fillPat(b, key, uint32(stream)<<20|uint32(sender)<<12|uint32(idx), 6, 0)
	b[0] = 0xD6
	b[1] = byte(stream)
	b[2] = byte(sender)
	binary.BigEndian.PutUint16(b[3:], uint16(idx))
	binary.BigEndian.PutUint16(b[5:], uint16(n))
	b[7] = 0x6D
	return b
}

func genC14(g *Gen) any {
	sc := &C14Scenario{PatKey: g.Rng.Uint64()}
	sc.Sess = SessParams{Method: byte(g.Int(0, 3)), NConn: g.Int(1, 8), Unordered: true, InactS: 3600, Partial: g.Bool(0.4)}
	sc.Sess.WireLimit = g.Pick(minWireLimit, 1200, 16401, 0)
	if g.Bool(0.5) {
		for i := 0; i < sc.Sess.NConn; i++ {
			sc.Sess.Weights = append(sc.Sess.Weights, []float64{1, 1, 0.3, 0.05}[g.Rng.IntN(4)])
		}
	}
	limit := sc.Sess.WireLimit
	if limit == 0 {
		limit = 16640
	}
	maxPay := limit - 14 - 255
	sc.NStreams = g.Int(1, 4)
	if g.Bool(0.12) {
		// bursts behind a lagging reader: dozens of small datagrams queue up
		sc.NStreams = g.Int(1, 2)
		sc.ReaderLagMS, sc.LagEvery = 1000, g.Pick(1, 3, 7, 16, 17, 40)
		for s := 0; s < sc.NStreams; s++ {
			for side := 0; side < 2; side++ {
				if side == 1 && g.Bool(0.5) {
					continue
				}
				snd := C14Sender{Stream: s, Side: side}
				for j := 0; j < g.Int(18, 120); j++ {
					snd.Sizes = append(snd.Sizes, g.Pick(dgHdr, dgHdr+1, 30, 64, g.Int(dgHdr, 300)))
				}
				sc.Senders = append(sc.Senders, snd)
			}
		}
		for side := 0; side < 2; side++ {
			for s := 0; s < sc.NStreams; s++ {
				sc.ReadBuf[side] = append(sc.ReadBuf[side], limit+100)
			}
		}
		return sc
	}
	for s := 0; s < sc.NStreams; s++ {
		for side := 0; side < 2; side++ {
			k := g.Int(1, 3)
			if side == 1 && g.Bool(0.3) {
				k = 0
			}
			for i := 0; i < k; i++ {
				snd := C14Sender{Stream: s, Side: side}
				for j := 0; j < g.Int(1, 8); j++ {
					n := g.Pick(dgHdr, dgHdr+1, 64, 1200, maxPay-1, maxPay, maxPay+1, maxPay+50, limit+50, g.Int(dgHdr, maxPay))
					snd.Sizes = append(snd.Sizes, max(n, dgHdr))
				}
				sc.Senders = append(sc.Senders, snd)
			}
		}
	}
	for side := 0; side < 2; side++ {
		for s := 0; s < sc.NStreams; s++ {
			sc.ReadBuf[side] = append(sc.ReadBuf[side], g.Pick(limit+100, limit+100, maxPay, 1200, 64, 9))
		}
	}
	return sc
}

type dgKey struct{ stream, sender, idx int }

func runC14(c *Ctx, scAny any) {
	sc := scAny.(*C14Scenario)
	c.Net.TapOn = true
	sw := NewSessWorld(c, sc.Sess, nil, nil)
	limit := sc.Sess.WireLimit
	if limit == 0 {
		limit = 16640
	}
	cs := make([]*mux.Stream, sc.NStreams)
	ss := make([]*mux.Stream, sc.NStreams)
	// establish the streams with one announce datagram each
	ready := 0
	for s := range cs {
		st, err := sw.C.OpenStream()
		if err != nil {
			c.Fail("setup", "error:open", "%v", err)
			return
		}
		cs[s] = st
	}
	simsync.Go("h:announce", func() {
		for s := range cs {
			if _, err := cs[s].Write([]byte{0xA1, byte(s)}); err != nil {
				c.Fail("dgram", "error:write", "announce: %v", err)
				return
			}
		}
	})
	simsync.Go("h:accept", func() {
		for ready < sc.NStreams {
			conn, err := sw.S.Accept()
			if err != nil {
				return
			}
			b := make([]byte, 64)
			n, err := conn.Read(b)
			if err != nil || n != 2 || b[0] != 0xA1 {
				c.Fail("dgram", "boundary", "first datagram of an accepted stream: (%d bytes, %v), want the 2-byte announce", n, err)
				return
			}
			ss[b[1]] = conn.(*mux.Stream)
			ready++
		}
	})
	c.Drive(func() bool { return ready == sc.NStreams })
	if c.Failed() || ready < sc.NStreams {
		return
	}
	accepted := map[dgKey][]byte{} // datagrams whose Write succeeded
	received := map[dgKey]int{}
	expect := [2][]int{make([]int, sc.NStreams), make([]int, sc.NStreams)} // per receiving side and stream: number of accepted datagrams
	got := [2][]int{make([]int, sc.NStreams), make([]int, sc.NStreams)}
	sending := 0
	for si, snd := range sc.Senders {
		si, snd := si, snd
		stream := cs[snd.Stream]
		if snd.Side == 1 {
			stream = ss[snd.Stream]
		}
		sending++
		simsync.Go("h:sender", func() {
			defer func() { sending-- }()
			for j, n := range snd.Sizes {
				d := dgBytes(sc.PatKey, snd.Stream, si, j, n)
				k, err := stream.Write(d)
				if err == nil && k == n {
					accepted[dgKey{snd.Stream, si, j}] = d
					expect[1-snd.Side][snd.Stream]++
				} else if err == nil {
					c.Fail("dgram", "short-write", "Write of a %d-byte datagram returned (%d, nil)", n, k)
					return
				}
			}
		})
	}
	for side := 0; side < 2; side++ {
		for s := 0; s < sc.NStreams; s++ {
			side, s := side, s
			stream := cs[s]
			if side == 1 {
				stream = ss[s]
			}
			simsync.Go("h:reader", func() {
				small := make([]byte, sc.ReadBuf[side][s])
				big := make([]byte, limit+200)
				retry := false
				for {
					if sc.ReaderLagMS > 0 && got[side][s]%max(sc.LagEvery, 1) == 0 && !retry {
						Sleep(time.Duration(sc.ReaderLagMS) * time.Millisecond)
					}
					buf := small
					if retry {
						buf = big
					}
					n, err := stream.Read(buf)
					if err == io.ErrShortBuffer {
						if retry {
							c.Fail("dgram", "short-buffer", "stream %d: Read with a %d-byte buffer still reports a short buffer", s, len(big))
							return
						}
						if n != 0 {
							c.Fail("dgram", "short-buffer", "stream %d: short-buffer error together with %d bytes", s, n)
							return
						}
						retry = true
						c.Probe("short_buffer_read")
						continue
					}
					if err != nil {
						return
					}
					d := buf[:n]
					if n < dgHdr || d[0] != 0xD6 || d[7] != 0x6D {
						c.Fail("dgram", "boundary", "side %d stream %d: Read returned %d bytes that are not one whole datagram (merged, split or foreign data)", side, s, n)
						return
					}
					k := dgKey{int(d[1]), int(d[2]), int(binary.BigEndian.Uint16(d[3:]))}
					ln := int(binary.BigEndian.Uint16(d[5:]))
					if k.stream != s {
						c.Fail("dgram", "isolation", "side %d stream %d received a datagram written on stream %d", side, s, k.stream)
						return
					}
					if k.sender >= len(sc.Senders) || sc.Senders[k.sender].Side == side || ln != n || !bytes.Equal(d, dgBytes(sc.PatKey, k.stream, k.sender, k.idx, ln)) {
						c.Fail("dgram", "boundary", "side %d stream %d: datagram (sender %d idx %d declared %d bytes) arrived as %d bytes or altered", side, s, k.sender, k.idx, ln, n)
						return
					}
					if retry && n <= len(small) {
						c.Fail("dgram", "short-buffer", "stream %d: a %d-byte datagram was refused with a short-buffer error by a %d-byte buffer", s, n, len(small))
						return
					}
					retry = false
					received[k]++
					if received[k] > 1 {
						c.Fail("dgram", "duplicate", "side %d stream %d: datagram (sender %d idx %d) delivered twice", side, s, k.sender, k.idx)
						return
					}
					got[side][s]++
				}
			})
		}
	}
	allIn := func() bool {
		if sending > 0 {
			return false
		}
		for side := 0; side < 2; side++ {
			for s := 0; s < sc.NStreams; s++ {
				if got[side][s] < expect[side][s] {
					return false
				}
			}
		}
		return true
	}
	end := c.Drive(allIn)
	if c.Failed() {
		return
	}
	if sw.C.IsClosed() || sw.S.IsClosed() {
		c.Fail("session-alive", "session-closed", "session closed: %q %q", sw.C.TerminalMsg(), sw.S.TerminalMsg())
		return
	}
	if end == simsync.EndQuiescent && !allIn() {
		c.Fail("dgram", "lost", "final quiescence on a healthy session with open streams: accepted %v per side/stream, delivered %v", expect, got)
		return
	}
	for k, d := range accepted {
		if _, ok := received[k]; !ok && end == simsync.EndDone {
			c.Fail("dgram", "lost", "datagram %+v (%d bytes) was accepted by Write but never delivered", k, len(d))
			return
		}
	}
	// the wire: one record per accepted datagram, none for refused ones
	codec, _ := NewRefCodec(sc.Sess.Method, sw.Key)
	maxPay := limit - 14 - 255
	for side := 0; side < 2; side++ {
		var wire [][]byte
		for _, l := range sw.Links {
			recs, _, rest := splitRecords(l.Dir[side].TapBuf)
			if rest != 0 {
				c.Fail("wire-format", "tap:partial-record", "trailing bytes on the wire")
				return
			}
			for _, r := range recs {
				if len(r) > limit {
					c.Fail("dgram", "over-limit", "a %d-byte message is on the wire, limit %d", len(r), limit)
					return
				}
				f, err := codec.Decode(r)
				if err != nil {
					c.Fail("wire-format", "tap:undecodable", "reference codec cannot decode a record: %v", err)
					return
				}
				if len(f.Payload) >= dgHdr && f.Payload[0] == 0xD6 {
					wire = append(wire, f.Payload)
				}
			}
		}
		var want [][]byte
		for k, d := range accepted {
			if sc.Senders[k.sender].Side == side {
				want = append(want, d)
			}
		}
		sortBytes(wire)
		sortBytes(want)
		if len(wire) != len(want) {
			c.Fail("dgram", "wire-count", "side %d put %d datagram records on the wire for %d accepted writes (a refused or failed write must put nothing there, an accepted one exactly one record)", side, len(wire), len(want))
			return
		}
		for i := range wire {
			if !bytes.Equal(wire[i], want[i]) {
				c.Fail("dgram", "wire-split", "side %d: the datagram records on the wire are not the accepted datagrams, one whole datagram per record", side)
				return
			}
		}
	}
	for si, snd := range sc.Senders {
		for j, n := range snd.Sizes {
			_, ok := accepted[dgKey{snd.Stream, si, j}]
			if n > maxPay && ok {
				c.Probe("oversize_accepted_as_one_frame")
			}
			if n <= maxPay && !ok {
				c.Fail("dgram", "refused", "a %d-byte datagram (per-frame maximum %d) was refused on a healthy session", n, maxPay)
				return
			}
			if n > maxPay && !ok {
				c.Probe("oversize_refused")
			}
		}
	}
	_ = fmt.Sprint
}

func sortBytes(a [][]byte) {
	sort.Slice(a, func(i, j int) bool { return bytes.Compare(a[i], a[j]) < 0 })
}

func init() {
	register(&Family{Name: "c14-dgram", Count: func(tier string) int { return map[string]int{"quick": 4000, "thorough": 120000}[tier] },
		Gen: genC14, New: func() any { return &C14Scenario{} }, Run: runC14,
		Policy: func(g *Gen) simsync.PolicyConfig {
			p := SwarmPolicy(g)
			p.Stall = 0
			return p
		}})
	plans["C14"] = []string{"c14-dgram"}
}
