package verifsim

// refcodec: an independent implementation of the Cloak v2 frame layout,
// written from the protocol description (not from obfs.go):
//
//	message = header(14) | body | nonce8
//	header  = StreamID(4, BE) | Seq(8, BE) | Closing(1) | ExtraLen(1), XORed with
//	          the Salsa20 keystream under (session key, last 8 bytes of the message)
//	AEAD methods: body = Seal(payload | padding) with nonce = clear header[:12];
//	          the message ends with the 16-byte tag, whose last 8 bytes double as
//	          the Salsa20 nonce. ExtraLen = len(padding) + 16.
//	plain:    body = payload | padding | 8 random bytes (the Salsa20 nonce);
//	          ExtraLen = len(padding) + 8.
//
// It is used as wire-tap decoder, forger and as codec of the reference peer.

import (
	"crypto/aes"
	"crypto/cipher"
	"encoding/binary"
	"errors"
	"fmt"

	"golang.org/x/crypto/chacha20poly1305"
	"golang.org/x/crypto/salsa20"
)

type RefFrame struct {
	StreamID uint32
	Seq      uint64
	Closing  byte
	Payload  []byte
	PadLen   int
}

type RefCodec struct {
	Method byte
	Key    [32]byte
	aead   cipher.AEAD
}

func NewRefCodec(method byte, key [32]byte) (*RefCodec, error) {
	r := &RefCodec{Method: method, Key: key}
	switch method {
	case 0:
	case 1:
		b, err := aes.NewCipher(key[:])
		if err != nil {
			return nil, err
		}
		r.aead, err = cipher.NewGCM(b)
		if err != nil {
			return nil, err
		}
	case 3:
		b, err := aes.NewCipher(key[:16])
		if err != nil {
			return nil, err
		}
		r.aead, err = cipher.NewGCM(b)
		if err != nil {
			return nil, err
		}
	case 2:
		var err error
		r.aead, err = chacha20poly1305.New(key[:])
		if err != nil {
			return nil, err
		}
	default:
		return nil, fmt.Errorf("unknown method %d", method)
	}
	return r, nil
}

func (r *RefCodec) TagLen() int {
	if r.aead != nil {
		return 16
	}
	return 8
}

var errRefShort = errors.New("refcodec: message too short")
var errRefAuth = errors.New("refcodec: authentication failed")
var errRefLen = errors.New("refcodec: inconsistent length fields")

// Decode parses one message (the content of one record).
func (r *RefCodec) Decode(msg []byte) (RefFrame, error) {
	var f RefFrame
	if len(msg) < 14+8 {
		return f, errRefShort
	}
	m := append([]byte(nil), msg...)
	nonce := m[len(m)-8:]
	hdr := m[:14]
	salsa20.XORKeyStream(hdr, hdr, nonce, &r.Key)
	f.StreamID = binary.BigEndian.Uint32(hdr[0:4])
	f.Seq = binary.BigEndian.Uint64(hdr[4:12])
	f.Closing = hdr[12]
	extra := int(hdr[13])
	body := m[14:]
	if r.aead != nil {
		pt, err := r.aead.Open(nil, hdr[:12], body, nil)
		if err != nil {
			return f, errRefAuth
		}
		pad := extra - 16
		if pad < 0 || pad > len(pt) {
			return f, errRefLen
		}
		f.Payload = pt[:len(pt)-pad]
		f.PadLen = pad
		return f, nil
	}
	if extra < 8 || extra > len(body) {
		return f, errRefLen
	}
	f.Payload = body[:len(body)-extra]
	f.PadLen = extra - 8
	return f, nil
}

// Encode builds a message. rnd supplies padLen + (8 for plain) random bytes.
func (r *RefCodec) Encode(f RefFrame, rnd []byte) []byte {
	hdr := make([]byte, 14)
	binary.BigEndian.PutUint32(hdr[0:4], f.StreamID)
	binary.BigEndian.PutUint64(hdr[4:12], f.Seq)
	hdr[12] = f.Closing
	pt := append(append([]byte(nil), f.Payload...), rnd[:f.PadLen]...)
	var body []byte
	if r.aead != nil {
		hdr[13] = byte(f.PadLen + 16)
		body = r.aead.Seal(nil, hdr[:12], pt, nil)
	} else {
		hdr[13] = byte(f.PadLen + 8)
		body = append(pt, rnd[f.PadLen:f.PadLen+8]...)
	}
	msg := append(hdr, body...)
	nonce := msg[len(msg)-8:]
	salsa20.XORKeyStream(msg[:14], msg[:14], nonce, &r.Key)
	return msg
}

// splitRecords parses a byte stream of application-data records (5-byte
// header type|ver(2)|len(2)); returns the record bodies and the number of
// trailing bytes that do not form a complete record.
func splitRecords(b []byte) (recs [][]byte, hdrs [][]byte, rest int) {
	for len(b) >= 5 {
		n := int(binary.BigEndian.Uint16(b[3:5]))
		if len(b) < 5+n {
			break
		}
		hdrs = append(hdrs, b[:5])
		recs = append(recs, b[5:5+n])
		b = b[5+n:]
	}
	return recs, hdrs, len(b)
}
