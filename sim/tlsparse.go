package verifsim

// tlsparse: a strict, independent parser for what a passive observer sees in
// direct mode: TLS records, ClientHello, ServerHello, ChangeCipherSpec.

import (
	"encoding/binary"
	"fmt"
)

type TLSRecord struct {
	Type    byte
	Version uint16
	Body    []byte
	Off     int // offset of the record header in the stream
}

// parseRecords splits a byte stream into records; rest = trailing bytes that
// do not form a complete record.
func parseRecords(b []byte) (recs []TLSRecord, rest int) {
	off := 0
	for len(b)-off >= 5 {
		n := int(binary.BigEndian.Uint16(b[off+3:]))
		if len(b)-off < 5+n {
			break
		}
		recs = append(recs, TLSRecord{Type: b[off], Version: binary.BigEndian.Uint16(b[off+1:]), Body: b[off+5 : off+5+n], Off: off})
		off += 5 + n
	}
	return recs, len(b) - off
}

type HelloExt struct {
	Type uint16
	Off  int // offset of the extension data in the record (record header included)
	Len  int
}

type ClientHelloInfo struct {
	RandomOff    int
	SessionIDOff int
	SessionIDLen int
	CipherSuites []uint16
	Exts         []HelloExt
	SNI          string
	// X25519 key share: offset and length of the key exchange bytes
	KeyShareOff int
	KeyShareLen int
	ALPN        []string
}

type rd struct {
	b   []byte
	off int
	err error
}

func (r *rd) need(n int) bool {
	if r.err != nil {
		return false
	}
	if r.off+n > len(r.b) {
		r.err = fmt.Errorf("truncated at offset %d (need %d bytes, have %d)", r.off, n, len(r.b)-r.off)
		return false
	}
	return true
}
func (r *rd) u8() int {
	if !r.need(1) {
		return 0
	}
	v := r.b[r.off]
	r.off++
	return int(v)
}
func (r *rd) u16() int {
	if !r.need(2) {
		return 0
	}
	v := binary.BigEndian.Uint16(r.b[r.off:])
	r.off += 2
	return int(v)
}
func (r *rd) u24() int {
	if !r.need(3) {
		return 0
	}
	v := int(r.b[r.off])<<16 | int(r.b[r.off+1])<<8 | int(r.b[r.off+2])
	r.off += 3
	return v
}
func (r *rd) skip(n int) int {
	if !r.need(n) {
		return r.off
	}
	o := r.off
	r.off += n
	return o
}

// parseClientHello parses one whole record (header included) that must
// contain exactly one ClientHello.
func parseClientHello(rec []byte) (*ClientHelloInfo, error) {
	r := &rd{b: rec}
	if typ := r.u8(); typ != 22 {
		return nil, fmt.Errorf("record type %d, want 22 (handshake)", typ)
	}
	if v := r.u16(); v != 0x0301 {
		return nil, fmt.Errorf("record version %#04x, want 0x0301", v)
	}
	rl := r.u16()
	if r.err != nil || rl != len(rec)-5 {
		return nil, fmt.Errorf("record length field %d does not match the %d bytes that follow", rl, len(rec)-5)
	}
	if ht := r.u8(); ht != 1 {
		return nil, fmt.Errorf("handshake type %d, want 1 (ClientHello)", ht)
	}
	hl := r.u24()
	if r.err != nil || hl != len(rec)-9 {
		return nil, fmt.Errorf("handshake length %d does not match the %d bytes that follow", hl, len(rec)-9)
	}
	if v := r.u16(); v != 0x0303 {
		return nil, fmt.Errorf("client version %#04x, want 0x0303", v)
	}
	ch := &ClientHelloInfo{}
	ch.RandomOff = r.skip(32)
	ch.SessionIDLen = r.u8()
	ch.SessionIDOff = r.skip(ch.SessionIDLen)
	csl := r.u16()
	if csl%2 != 0 || csl == 0 {
		return nil, fmt.Errorf("cipher suites length %d", csl)
	}
	for i := 0; i < csl/2; i++ {
		ch.CipherSuites = append(ch.CipherSuites, uint16(r.u16()))
	}
	cml := r.u8()
	r.skip(cml)
	if cml < 1 {
		return nil, fmt.Errorf("no compression method")
	}
	el := r.u16()
	if r.err != nil {
		return nil, r.err
	}
	if el != len(rec)-r.off {
		return nil, fmt.Errorf("extensions length %d does not match the %d bytes that follow", el, len(rec)-r.off)
	}
	seen := map[uint16]bool{}
	for r.off < len(rec) && r.err == nil {
		t := uint16(r.u16())
		l := r.u16()
		o := r.skip(l)
		if r.err != nil {
			break
		}
		if seen[t] && t&0x0f0f != 0x0a0a {
			return nil, fmt.Errorf("extension %#04x appears twice", t)
		}
		seen[t] = true
		ch.Exts = append(ch.Exts, HelloExt{t, o, l})
		d := &rd{b: rec[:o+l], off: o}
		switch t {
		case 0: // server_name
			ll := d.u16()
			if ll != l-2 {
				return nil, fmt.Errorf("server_name list length %d in an extension of %d bytes", ll, l)
			}
			if nt := d.u8(); nt != 0 {
				return nil, fmt.Errorf("server_name type %d", nt)
			}
			nl := d.u16()
			no := d.skip(nl)
			if d.err != nil || d.off != o+l {
				return nil, fmt.Errorf("malformed server_name extension")
			}
			ch.SNI = string(rec[no : no+nl])
		case 0x33: // key_share
			ll := d.u16()
			if ll != l-2 {
				return nil, fmt.Errorf("key_share list length %d in an extension of %d bytes", ll, l)
			}
			for d.off < o+l && d.err == nil {
				grp := d.u16()
				kl := d.u16()
				ko := d.skip(kl)
				if grp == 0x001d {
					ch.KeyShareOff, ch.KeyShareLen = ko, kl
				}
			}
			if d.err != nil {
				return nil, fmt.Errorf("malformed key_share: %v", d.err)
			}
		case 0x10: // ALPN
			ll := d.u16()
			_ = ll
			for d.off < o+l && d.err == nil {
				pl := d.u8()
				po := d.skip(pl)
				if d.err == nil {
					ch.ALPN = append(ch.ALPN, string(rec[po:po+pl]))
				}
			}
		}
	}
	if r.err != nil {
		return nil, r.err
	}
	return ch, nil
}

type ServerHelloInfo struct {
	SessionID []byte
	Cipher    uint16
	KeyShare  []byte
}

// parseServerHello parses one whole handshake record containing a ServerHello.
func parseServerHello(rec []byte) (*ServerHelloInfo, error) {
	r := &rd{b: rec}
	if typ := r.u8(); typ != 22 {
		return nil, fmt.Errorf("record type %d, want 22", typ)
	}
	if v := r.u16(); v != 0x0303 {
		return nil, fmt.Errorf("record version %#04x, want 0x0303", v)
	}
	if rl := r.u16(); rl != len(rec)-5 {
		return nil, fmt.Errorf("record length %d does not match %d", rl, len(rec)-5)
	}
	if ht := r.u8(); ht != 2 {
		return nil, fmt.Errorf("handshake type %d, want 2 (ServerHello)", ht)
	}
	if hl := r.u24(); hl != len(rec)-9 {
		return nil, fmt.Errorf("handshake length %d does not match %d", hl, len(rec)-9)
	}
	if v := r.u16(); v != 0x0303 {
		return nil, fmt.Errorf("server version %#04x", v)
	}
	r.skip(32)
	sl := r.u8()
	so := r.skip(sl)
	sh := &ServerHelloInfo{}
	if r.err == nil {
		sh.SessionID = rec[so : so+sl]
	}
	sh.Cipher = uint16(r.u16())
	if cm := r.u8(); cm != 0 {
		return nil, fmt.Errorf("compression method %d", cm)
	}
	el := r.u16()
	if r.err != nil {
		return nil, r.err
	}
	if el != len(rec)-r.off {
		return nil, fmt.Errorf("extensions length %d does not match the %d bytes that follow", el, len(rec)-r.off)
	}
	for r.off < len(rec) && r.err == nil {
		t := r.u16()
		l := r.u16()
		o := r.skip(l)
		if r.err != nil {
			break
		}
		if t == 0x33 {
			d := &rd{b: rec[:o+l], off: o}
			grp := d.u16()
			kl := d.u16()
			ko := d.skip(kl)
			if d.err != nil || d.off != o+l || grp != 0x001d {
				return nil, fmt.Errorf("malformed server key_share")
			}
			sh.KeyShare = rec[ko : ko+kl]
		}
	}
	if r.err != nil {
		return nil, r.err
	}
	return sh, nil
}
