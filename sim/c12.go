package verifsim

import (
	"fmt"
	"io"
	"net"
	"time"

	mux "github.com/cbeuw/Cloak/internal/multiplex"
	"github.com/cbeuw/Cloak/internal/simsync"
	"github.com/cbeuw/Cloak/verifsim/simnet"
)

// ---- C12: faults tear a session down cleanly ----

type C12Fault struct {
	Kind string `json:"kind"` // none | reset | eof0 | eof1 | close-c | close-s | sched-reset | sched-eof
	Link int    `json:"link,omitempty"`
	Dir  int    `json:"dir,omitempty"`
	// scripted link faults: right after the n-th write on (Link,Dir) ...
	AfterWrite int `json:"after_write,omitempty"`
	// ... or once this many bytes were delivered on (Link,Dir) (inside a record)
	AtByte int64 `json:"at_byte,omitempty"`
	// session Close: called once the closing side has read this many bytes
	CloseAfter int `json:"close_after,omitempty"`
}

type C12Stream struct {
	StreamPlan
	// OpenAfter: the client opens this stream only once it has read that many bytes in total
	OpenAfter int `json:"open_after,omitempty"`
	// CloseEnd: the client closes the stream after its exchange completed (stream churn)
	CloseEnd bool `json:"close_end,omitempty"`
	// CloseAt: a separate task closes the client's stream once that many bytes
	// were read in total (0: never), possibly while its reader is parked in Read
	CloseAt int `json:"close_at,omitempty"`
	// ServerClose: the accepting side closes the stream once its exchange is complete
	ServerClose bool `json:"server_close,omitempty"`
}

type C12Scenario struct {
	Sess    SessParams  `json:"sess"`
	PatKey  uint64      `json:"pat_key"`
	Streams []C12Stream `json:"streams"`
	Fault   C12Fault    `json:"fault"`
	// Linger: after the workload completed keep the world running until the
	// inactivity timers had their say
	Linger bool `json:"linger,omitempty"`
	// Backlog: stream 0's receiving application (HoldReader) stays away while
	// megabytes arrive for it; the fault strikes once all of them were written,
	// and the application comes back only after the teardown
	Backlog bool `json:"backlog,omitempty"`
}

type c12Closer struct {
	at int // total bytes read (both sides) at which the closer task is started
	fn func()
}

type c12Task struct {
	name   string
	inCall string
	done   bool
}

type c12Run struct {
	c       *Ctx
	sc      *C12Scenario
	sw      *SessWorld
	tasks   []*c12Task
	states  []*streamState
	limit   int
	cRead   int
	sRead   int
	pending []int // streams not opened yet (by OpenAfter)
	closers []c12Closer
	closeFn func()
	closed  bool // session Close requested by the harness
	// openCalls: OpenStream calls made so far (stream ids are handed out 1, 2, ...)
	openCalls int
	bad       string
	badSig    string
	// timer oracle
	zeroSince [2]time.Duration
	hadOpen   [2]int
	everOpen  [2]bool
	wasClosed [2]bool
	closedAt  [2]time.Duration
}

func (r *c12Run) task(name string, fn func(t *c12Task)) {
	t := &c12Task{name: name}
	r.tasks = append(r.tasks, t)
	simsync.Go("h:"+name, func() {
		defer func() { t.done = true }()
		fn(t)
	})
}

func (r *c12Run) fail(sig, format string, a ...any) {
	if r.bad == "" {
		r.bad = fmt.Sprintf(format, a...)
		r.badSig = sig
	}
}

func (r *c12Run) faultFired() bool {
	return r.closed || r.c.Net.Fired["reset"] > 0 || r.c.Net.Fired["eof"] > 0 || r.c.Net.Fired["cut"] > 0 || r.sw.C.IsClosed() || r.sw.S.IsClosed()
}

// read verifies pattern bytes until n are read or an error ends the stream:
// a prefix followed by an error is fine once something has torn the session down.
func (r *c12Run) read(t *c12Task, rd io.Reader, st *streamState, dir, n int, progress *int, who int) bool {
	buf := make([]byte, st.plan.ReadBuf)
	for *progress < n {
		t.inCall = "Read"
		m, err := rd.Read(buf)
		t.inCall = ""
		if m > 0 {
			if *progress+m > n {
				r.fail("data:excess", "stream tag %d dir %d: read beyond the %d bytes written", st.tag, dir, n)
				return false
			}
			if i := checkPat(buf[:m], r.sc.PatKey, st.tag, dir, *progress); i >= 0 {
				r.fail("data:not-prefix", "stream tag %d dir %d: byte at offset %d differs from what was written (not a prefix)", st.tag, dir, *progress+i)
				return false
			}
			*progress += m
			if who == 0 {
				r.cRead += m
			} else {
				r.sRead += m
				r.sw.Progress(r.sRead)
			}
			r.progress()
		}
		if err != nil {
			if !r.faultFired() && !st.harnessClosed {
				r.fail("error:read", "stream tag %d dir %d: Read returned %v after %d of %d bytes although nothing failed and nobody closed", st.tag, dir, err, *progress, n)
			}
			return false
		}
	}
	return true
}

func (r *c12Run) write(t *c12Task, w io.Writer, st *streamState, dir, n int) bool {
	ss := &sizeSeq{class: st.plan.SizeClass, limit: r.limit, x: st.plan.SizeSeed + uint64(dir)}
	off := 0
	for off < n {
		k := ss.next()
		if off+k > n {
			k = n - off
		}
		buf := make([]byte, k)
		fillPat(buf, r.sc.PatKey, st.tag, dir, off)
		t.inCall = "Write"
		_, err := w.Write(buf)
		t.inCall = ""
		if err != nil {
			if !r.faultFired() && !st.harnessClosed {
				r.fail("error:write", "stream tag %d dir %d: Write returned %v although nothing failed and nobody closed", st.tag, dir, err)
			}
			return false
		}
		off += k
	}
	if r.sc.Backlog && st.plan.HoldReader && dir == 0 {
		r.backlogWritten()
	}
	return true
}

// backlogWritten strikes the scenario's fault (Backlog scenarios).
func (r *c12Run) backlogWritten() {
	f := r.sc.Fault
	r.c.Probe("backlog_written_then:" + f.Kind)
	switch f.Kind {
	case "close-c", "close-s":
		if fn := r.closeFn; fn != nil {
			r.closeFn = nil
			fn()
		}
	case "reset":
		r.c.Net.Reset(r.sw.Links[f.Link])
	case "eof0", "eof1":
		r.c.Net.Fin(r.sw.Links[f.Link], int(f.Kind[3]-'0'))
	}
}

// progress opens pending streams and triggers the session Close.
func (r *c12Run) progress() {
	for len(r.pending) > 0 && r.sc.Streams[r.pending[0]].OpenAfter <= r.cRead {
		i := r.pending[0]
		r.pending = r.pending[1:]
		r.startOpener(i)
	}
	for k := 0; k < len(r.closers); k++ {
		if r.closers[k].at <= r.cRead+r.sRead {
			fn := r.closers[k].fn
			r.closers = append(r.closers[:k], r.closers[k+1:]...)
			k--
			fn()
		}
	}
	f := r.sc.Fault
	if r.closeFn != nil && !r.sc.Backlog {
		n := r.cRead
		if f.Kind == "close-s" {
			n = r.sRead
		}
		if n >= f.CloseAfter {
			fn := r.closeFn
			r.closeFn = nil
			fn()
		}
	}
}

func (r *c12Run) startOpener(i int) {
	st := r.states[i]
	r.task("opener", func(t *c12Task) {
		t.inCall = "OpenStream"
		r.openCalls++ // (counted before the call: the id is taken inside it)
		stream, err := r.sw.C.OpenStream()
		t.inCall = ""
		if err != nil {
			if !r.faultFired() {
				r.fail("error:open", "OpenStream failed with %v although nothing failed and nobody closed", err)
			}
			return
		}
		// the tag goes first, from this task, so that the stream is never closed
		// (CloseEnd) before the peer can tell which stream it is
		t.inCall = "Write"
		_, err = stream.Write(putTag(st.tag))
		t.inCall = ""
		if err != nil {
			if !r.faultFired() {
				r.fail("error:write", "writing the tag failed with %v although nothing failed", err)
			}
			return
		}
		r.task("opener-w", func(t *c12Task) { r.write(t, stream, st, 0, st.plan.Up) })
		if ca := r.sc.Streams[i].CloseAt; ca > 0 {
			// another task closes the stream while this one may be parked in Read
			r.closers = append(r.closers, c12Closer{at: ca, fn: func() {
				r.task("stream-closer", func(t *c12Task) {
					t.inCall = "Stream.Close"
					st.harnessClosed = true
					stream.Close()
					t.inCall = ""
				})
			}})
		}
		if r.read(t, stream, st, 1, st.plan.Down, &st.downRead, 0) && r.sc.Streams[i].CloseEnd {
			t.inCall = "Stream.Close"
			st.harnessClosed = true
			stream.Close()
			t.inCall = ""
		}
	})
}

func (r *c12Run) acceptLoop(sesh *mux.Session, who int) {
	r.task("accept", func(t *c12Task) {
		for {
			t.inCall = "Accept"
			conn, err := sesh.Accept()
			t.inCall = ""
			if err != nil {
				if !r.faultFired() {
					r.fail("error:accept", "Accept failed with %v although nothing failed and nobody closed", err)
				}
				return
			}
			if who == 0 {
				r.fail("data:foreign-stream", "the client accepted a stream nobody opened")
				return
			}
			// the opener numbers its streams 1, 2, 3, ...: anything else was made up
			// on the way (a record cut short by the fault must not be taken for a frame)
			if id := conn.(*mux.Stream).VerifID(); id == 0 || int(id) > r.openCalls {
				r.fail("data:foreign-stream", "the accepting side was handed stream %d, but only %d streams were ever opened (fault %+v)", id, r.openCalls, r.sc.Fault)
				return
			}
			r.task("acceptor", func(t *c12Task) { r.acceptor(t, conn) })
		}
	})
}

func (r *c12Run) acceptor(t *c12Task, stream net.Conn) {
	tagb := make([]byte, tagLen)
	got := 0
	for got < tagLen {
		t.inCall = "Read"
		m, err := stream.Read(tagb[got:])
		t.inCall = ""
		got += m
		if err != nil {
			if !r.faultFired() {
				r.fail("error:read", "reading a tag failed with %v although nothing failed", err)
			}
			return
		}
	}
	tag, ok := getTag(tagb)
	if !ok || int(tag) >= len(r.states) {
		r.fail("data:not-prefix", "accepted stream starts with %x, not a tag", tagb)
		return
	}
	r.sRead += tagLen
	r.sw.Progress(r.sRead)
	st := r.states[tag]
	wdone := false
	r.task("acceptor-w", func(t *c12Task) {
		r.write(t, stream, st, 1, st.plan.Down)
		wdone = true
	})
	if int(tag) < len(r.sc.Streams) && r.sc.Streams[tag].ServerClose {
		defer func() {
			for !wdone && !r.c.Failed() && !r.faultFired() {
				Sleep(time.Millisecond)
			}
			t.inCall = "Stream.Close"
			st.harnessClosed = true
			stream.Close()
			t.inCall = ""
		}()
	}
	if st.plan.HoldReader {
		// the application is busy elsewhere; a teardown must not wait for it
		// (virtual time passes only when nothing else can run)
		for i := 0; !r.tornDown() && !r.c.Failed(); i++ {
			if i == 1200 && r.faultFired() {
				r.fail("teardown-waits-for-reader", "stream tag %d holds unread data and its application is not reading; 2 virtual minutes after the fault the session is still not torn down (client closed=%v, server closed=%v)\n%s", st.tag, r.sw.C.IsClosed(), r.sw.S.IsClosed(), r.c.W.DumpTasks())
				return
			}
			Sleep(100 * time.Millisecond)
		}
	}
	r.read(t, stream, st, 0, st.plan.Up, &st.upRead, 1)
}

func (r *c12Run) tornDown() bool {
	if !r.sw.C.IsClosed() || !r.sw.S.IsClosed() {
		return false
	}
	ok, _ := r.connsClosed()
	return ok
}

func (r *c12Run) allDone() bool {
	for _, t := range r.tasks {
		if !t.done {
			return false
		}
	}
	return len(r.pending) == 0
}

func (r *c12Run) connsClosed() (bool, string) {
	for i, l := range r.sw.Links {
		for s := 0; s < 2; s++ {
			if !l.Ends[s].IsClosed() {
				return false, fmt.Sprintf("link %d side %d", i, s)
			}
		}
	}
	return true, ""
}

// idle is evaluated at quiescent moments: stream-count invariant and timer bound.
func (r *c12Run) idle() string {
	now := r.c.W.Elapsed()
	for who, sesh := range []*mux.Session{r.sw.C, r.sw.S} {
		if sesh.VerifClosedFlag() {
			continue
		}
		open, count := sesh.VerifStreamTable()
		if uint32(open) != count {
			return fmt.Sprintf("count-drift|quiescent moment at %v: side %d has %d open streams in its table but an active-stream count of %d", now, who, open, count)
		}
		timeout := time.Duration(r.sc.Sess.InactS) * time.Second
		singleplex := r.sc.Sess.Singleplex && who == 0 // (the accepting end is never singleplex)
		if singleplex && open == 0 && r.everOpen[who] {
			return fmt.Sprintf("singleplex:outlived-stream|quiescent moment at %v: the singleplex session (side %d) has no open stream any more - its single stream was closed - but is still open", now, who)
		}
		if !singleplex && open == 0 && now > r.zeroSince[who]+timeout+time.Millisecond {
			return fmt.Sprintf("timer:late|side %d has had no open stream since %v but is still open at %v (inactivity timeout %v)", who, r.zeroSince[who], now, timeout)
		}
	}
	return ""
}

// step tracks when each session last had an open stream and judges timer closes.
func (r *c12Run) step() {
	now := r.c.W.Elapsed()
	for who, sesh := range []*mux.Session{r.sw.C, r.sw.S} {
		closed := sesh.VerifClosedFlag()
		if closed && !r.wasClosed[who] {
			r.wasClosed[who] = true
			r.closedAt[who] = now
			if sesh.TerminalMsg() == "timeout" && r.hadOpen[who] > 0 && !(r.sc.Sess.Singleplex && who == 0) {
				r.fail("timer:with-open-streams", "side %d closed itself on its inactivity timer at %v while %d streams were open", who, now, r.hadOpen[who])
			}
		}
		if closed && r.closeFn == nil && r.sc.Fault.Kind != "close-c" && r.sc.Fault.Kind != "close-s" && now > r.closedAt[who]+time.Second {
			// A session that a fault tore down (nothing is sent on that path: no closing
			// frame, hence nothing that could wait for a slow peer) closes all of its
			// connections there and then. Time passes in these worlds only when nothing
			// can run: a connection of it still open a second later is one the teardown
			// could not close - it is waiting for something a dead path will not deliver.
			if msg := sesh.TerminalMsg(); msg != "" && msg != "timeout" {
				for i, l := range r.sw.Links {
					if !l.Ends[who].IsClosed() {
						r.fail("teardown:late", "side %d was torn down at %v (%q) but its end of connection %d is still open at %v (fault %+v, dark link %d for %d ms)\n%s", who, r.closedAt[who], msg, i, now, r.sc.Fault, r.sc.Sess.DarkLink-1, r.sc.Sess.DarkMS, r.c.W.DumpTasks())
						break
					}
				}
			}
		}
		if closed {
			continue
		}
		open, _ := sesh.VerifStreamTable()
		if open > 0 || r.hadOpen[who] > 0 && open == 0 {
			r.zeroSince[who] = now
		}
		r.hadOpen[who] = open
		if open > 0 {
			r.everOpen[who] = true
		}
	}
}

func genC12Streams(g *Gen, ns, maxBytes int) []C12Stream {
	var out []C12Stream
	for i := 0; i < ns; i++ {
		pl := StreamPlan{SizeClass: g.Int(1, 4), SizeSeed: g.Rng.Uint64(), ReadBuf: g.Pick(7, 512, 3000, 16384)}
		lim := min(maxBytes, 100*pl.ReadBuf)
		pl.Up = g.Int(0, lim)
		pl.Down = g.Int(0, lim)
		s := C12Stream{StreamPlan: pl, CloseEnd: g.Bool(0.3)}
		if !s.CloseEnd && g.Bool(0.3) {
			s.ServerClose = true
		}
		if g.Bool(0.3) {
			s.CloseAt = g.Pick(1, 8, 9, 100, 1000, 3000)
		}
		if i > 0 && g.Bool(0.5) {
			s.OpenAfter = g.Pick(0, 1, 100, 1000, 4000)
		}
		out = append(out, s)
	}
	return out
}

func genC12Random(g *Gen) any {
	sc := &C12Scenario{PatKey: g.Rng.Uint64()}
	if g.Bool(0.02) {
		sc.Backlog = true
		sc.Sess = SessParams{Method: byte(g.Int(0, 3)), NConn: g.Int(1, 3), InactS: 30, Partial: g.Bool(0.3)}
		sc.Streams = []C12Stream{{StreamPlan: StreamPlan{SizeClass: 3, SizeSeed: g.Rng.Uint64(), ReadBuf: 65536, Up: g.Pick(1300000, 4500000, 6000000), HoldReader: true}}}
		for k := g.Int(0, 2); k > 0; k-- {
			// bystanders whose readers are parked when the fault strikes
			sc.Streams = append(sc.Streams, C12Stream{StreamPlan: StreamPlan{SizeClass: g.Int(1, 4), SizeSeed: g.Rng.Uint64(), ReadBuf: 4096, Up: g.Int(0, 3000), Down: g.Int(0, 3000)}})
		}
		sc.Fault = C12Fault{Kind: []string{"reset", "eof0", "eof1", "close-c", "close-s"}[g.Rng.IntN(5)], Link: g.Int(0, sc.Sess.NConn-1)}
		return sc
	}
	if g.Bool(0.06) {
		// one connection of the session is a dead path (nothing arrives, nothing
		// comes back, for longer than anything waits) and the senders have a
		// bounded window: writers of the streams assigned to it are parked inside
		// the connection when a fault on another connection tears the session down
		n := g.Int(2, 3)
		sc.Sess = SessParams{Method: byte(g.Int(0, 3)), NConn: n, InactS: 30, Partial: g.Bool(0.3), Window: g.Pick(256, 1024, 4096), WS: g.Bool(0.5)}
		dark := g.Int(0, n-1)
		sc.Sess.DarkLink, sc.Sess.DarkMS = dark+1, g.Pick(5000, 20000, 61000)
		for k := g.Int(2, 5); k > 0; k-- {
			sc.Streams = append(sc.Streams, C12Stream{StreamPlan: StreamPlan{SizeClass: g.Int(1, 4), SizeSeed: g.Rng.Uint64(), ReadBuf: 4096, Up: g.Int(3000, 20000), Down: g.Int(0, 3000)}})
		}
		sc.Fault = C12Fault{Kind: []string{"reset", "eof0", "eof1"}[g.Rng.IntN(3)], Link: (dark + 1 + g.Int(0, n-2)) % n, Dir: g.Int(0, 1), AfterWrite: g.Int(2, 10)}
		return sc
	}
	sc.Sess = genSessParams(g, 4)
	sc.Sess.Stalls = nil
	sc.Sess.InactS = g.Pick(1, 5, 30, 30)
	if g.Bool(0.15) {
		sc.Sess.Singleplex, sc.Sess.NConn = true, 1
		sc.Sess.LateConns, sc.Sess.LateAfter, sc.Sess.Weights = false, nil, nil
	}
	ns := g.Int(1, 4)
	if sc.Sess.Singleplex {
		ns = 1
	}
	sc.Streams = genC12Streams(g, ns, 8000)
	if sc.Sess.Singleplex {
		sc.Streams[0].OpenAfter = 0
	}
	kinds := []string{"none", "reset", "eof0", "eof1", "close-c", "close-s", "sched-reset", "sched-eof", "close-c", "close-s", "cut"}
	f := C12Fault{Kind: kinds[g.Rng.IntN(len(kinds))], Link: g.Int(0, sc.Sess.NConn-1), Dir: g.Int(0, 1)}
	if g.Bool(0.5) {
		f.AfterWrite = g.Int(1, 20)
	} else {
		f.AtByte = int64(g.Pick(1, 3, 5, 6, 19, 20, g.Int(1, 3000), g.Int(1, 20000)))
	}
	if f.Kind == "cut" && f.AtByte == 0 {
		f.AfterWrite, f.AtByte = 0, int64(g.Int(1, 20000))
	}
	f.CloseAfter = g.Pick(0, 0, 1, 8, 100, 2000, 6000)
	sc.Fault = f
	sc.Linger = f.Kind == "none" || g.Bool(0.3)
	return sc
}

// boundary enumeration: a fixed small exchange, fault kind x link x direction x position
var c12BoundaryBytes = []int64{1, 3, 5, 6, 12, 19, 20, 100, 300, 301, 700, 1500, 2500, 4000}

const c12BoundaryWrites = 14

func c12BoundaryCount() int { return 4 * 2 * 2 * (c12BoundaryWrites + len(c12BoundaryBytes)) }

func genC12Boundary(g *Gen) any {
	i := g.Idx
	pos := i % (c12BoundaryWrites + len(c12BoundaryBytes))
	i /= c12BoundaryWrites + len(c12BoundaryBytes)
	dir := i % 2
	i /= 2
	link := i % 2
	i /= 2
	// "cut": the direction ends after exactly that many bytes, inside a record
	kind := []string{"reset", "eof0", "eof1", "cut"}[i%4]
	sc := &C12Scenario{PatKey: 0xC12C12, Linger: true}
	sc.Sess = SessParams{Method: byte(g.Idx % 4), NConn: 2, InactS: 30, WireLimit: 700}
	mk := func(up, down int, seed uint64) C12Stream {
		return C12Stream{StreamPlan: StreamPlan{Up: up, Down: down, SizeClass: 3, SizeSeed: seed, ReadBuf: 3000}}
	}
	sc.Streams = []C12Stream{mk(2500, 1800, 11), mk(900, 3000, 12)}
	sc.Fault = C12Fault{Kind: kind, Link: link, Dir: dir}
	if pos < c12BoundaryWrites && kind == "cut" {
		sc.Fault.AtByte = int64(7 + 53*pos)
	} else if pos < c12BoundaryWrites {
		sc.Fault.AfterWrite = pos + 1
	} else {
		sc.Fault.AtByte = c12BoundaryBytes[pos-c12BoundaryWrites]
	}
	return sc
}

func runC12(c *Ctx, scAny any) {
	sc := scAny.(*C12Scenario)
	sw := NewSessWorld(c, sc.Sess, nil, nil)
	limit := sc.Sess.WireLimit
	if limit <= 0 {
		limit = 16640
	}
	r := &c12Run{c: c, sc: sc, sw: sw, limit: limit - 14 - 255}
	for i, p := range sc.Streams {
		r.states = append(r.states, &streamState{plan: p.StreamPlan, tag: uint32(i)})
	}
	f := sc.Fault
	switch f.Kind {
	case "reset", "eof0", "eof1", "cut":
		if f.Link < len(sw.Links) && !sc.Backlog {
			sw.Links[f.Link].Script = append(sw.Links[f.Link].Script, simnet.ScriptedFault{Dir: f.Dir, AfterWrite: f.AfterWrite, AtByte: f.AtByte, Kind: f.Kind})
		}
	case "sched-reset":
		c.Net.FaultBudget["reset"] = 1
	case "sched-eof":
		c.Net.FaultBudget["eof"] = 1
	case "close-c", "close-s":
		sesh := sw.C
		if f.Kind == "close-s" {
			sesh = sw.S
		}
		r.closeFn = func() {
			r.task("closer", func(t *c12Task) {
				r.closed = true
				t.inCall = "Session.Close"
				sesh.Close()
				t.inCall = ""
			})
		}
	}
	c.W.OnIdle = r.idle
	c.W.OnStep = r.step
	r.acceptLoop(sw.S, 1)
	r.acceptLoop(sw.C, 0)
	for i, s := range sc.Streams {
		if s.OpenAfter > 0 {
			r.pending = append(r.pending, i)
		}
	}
	for i, s := range sc.Streams {
		if s.OpenAfter == 0 {
			r.startOpener(i)
		}
	}
	r.progress()
	tornDown := r.tornDown
	end := c.Drive(func() bool {
		if r.bad != "" {
			return true
		}
		if !sc.Linger && !r.faultFired() {
			// fault-free completion: accept loops stay blocked on a live session
			n := 0
			for _, t := range r.tasks {
				if !t.done && t.name != "accept" {
					n++
				}
			}
			return n == 0 && len(r.pending) == 0 && c.Net.Idle()
		}
		return r.allDone() && tornDown()
	})
	if c.Failed() {
		return
	}
	if r.bad != "" {
		c.Fail("teardown", r.badSig, "%s", r.bad)
		return
	}
	if end != simsync.EndQuiescent && end != simsync.EndDone {
		return
	}
	if !sw.C.IsClosed() && !sw.S.IsClosed() {
		// nothing tore the session down (the fault position was never reached and
		// streams are still open): a live session rightly stays up; idle() has
		// judged the inactivity timer along the way
		c.Probe("fault_not_reached")
		return
	}
	// something closed a session: everything must be torn down
	for _, t := range r.tasks {
		if !t.done {
			c.Fail("teardown", "left-blocked:"+t.inCall, "task %s is still blocked in %s after the session was torn down (client closed=%v %q, server closed=%v %q, fault %+v)\n%s",
				t.name, t.inCall, sw.C.IsClosed(), sw.C.TerminalMsg(), sw.S.IsClosed(), sw.S.TerminalMsg(), f, c.W.DumpTasks())
			return
		}
	}
	if !sw.C.IsClosed() || !sw.S.IsClosed() {
		c.Fail("teardown", "one-side-open", "only one side noticed: client closed=%v (%q) server closed=%v (%q), fault %+v", sw.C.IsClosed(), sw.C.TerminalMsg(), sw.S.IsClosed(), sw.S.TerminalMsg(), f)
		return
	}
	if ok, which := r.connsClosed(); !ok {
		c.Fail("teardown", "conn-left-open", "both sessions are closed but %s was never closed (fault %+v)", which, f)
		return
	}
	for who, sesh := range []*mux.Session{sw.C, sw.S} {
		if _, err := sesh.OpenStream(); err == nil {
			c.Fail("teardown", "open-after-close", "side %d: OpenStream succeeded on a closed session", who)
			return
		}
	}
	c.Probe("torn_down:" + f.Kind)
}

func init() {
	pol := func(g *Gen) simsync.PolicyConfig {
		p := SwarmPolicy(g)
		p.Stall = 0
		p.Fault = 0.002
		return p
	}
	register(&Family{
		Name:       "c12-boundary",
		Count:      func(tier string) int { return c12BoundaryCount() },
		Enumerated: true,
		Gen:        genC12Boundary,
		New:        func() any { return &C12Scenario{} },
		Run:        runC12,
		Policy:     pol,
		VirtCap:    10 * time.Minute,
	})
	register(&Family{
		Name:     "c12-random",
		MaxSteps: 6000000, // (a cap only: Backlog scenarios move megabytes)
		Count:    func(tier string) int { return map[string]int{"quick": 4000, "thorough": 120000}[tier] },
		Gen:      genC12Random,
		New:      func() any { return &C12Scenario{} },
		Run:      runC12,
		Policy:   pol,
		VirtCap:  10 * time.Minute,
	})
	plans["C12"] = []string{"c12-boundary", "c12-random"}
}
