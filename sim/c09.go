package verifsim

import (
	"bytes"
	"encoding/binary"
	"fmt"
	"io"
	"math/rand/v2"
	"net"
	"strings"
	"time"

	"github.com/cbeuw/Cloak/internal/server"
	"github.com/cbeuw/Cloak/internal/simsync"
	"github.com/cbeuw/Cloak/verifsim/simnet"
)

// ---- C09: unauthenticated peers see only the redirect target, byte for byte ----
//
// W-srv: the real server.Serve loop on a simulated listener, a scripted
// redirect target and adversarial peers. The oracle is a plain TCP relay.

type C09Reply struct {
	After int `json:"after"` // sent once the target has received this many bytes
	N     int `json:"n"`
}

type C09Peer struct {
	Kind string `json:"kind"`
	// Stream: the bytes the peer sends (hex-free: generated from Kind+Seed at run time), Len is informative
	Seed     uint64     `json:"seed"`
	Arg      int        `json:"arg,omitempty"`
	Extra    int        `json:"extra"`     // bytes sent after the first packet
	Cuts     []int      `json:"cuts"`      // segment boundaries (offsets), ascending
	DelaysMS []int      `json:"delays_ms"` // virtual delay before each segment
	Mode     string     `json:"mode"`      // "stay" (read all replies, then close) | "close" (close right after sending) | "stall" (send a strict prefix of the first packet and wait)
	StallAt  int        `json:"stall_at,omitempty"`
	Replies  []C09Reply `json:"replies"`
	// TargetClosesFirst: the target closes after its last reply instead of waiting for EOF
	TargetClosesFirst bool `json:"target_closes_first,omitempty"`
	// StartMS: the peer connects this long after the others
	StartMS int `json:"start_ms,omitempty"`
	// Port80 (TwoPorts scenarios): the peer connects to the server's port 80
	Port80 bool `json:"port80,omitempty"`
}

type C09Scenario struct {
	Peers   []C09Peer `json:"peers"`
	Partial bool      `json:"partial"`
	Seed    uint64    `json:"seed"`
	// RedirDialMS: connecting to the redirect target takes this long (a slow or
	// distant web server): later peers arrive while an earlier one is being handed over
	RedirDialMS int `json:"redir_dial_ms,omitempty"`
	// NoAdmin: the server's configuration names no AdminUID
	NoAdmin bool `json:"no_admin,omitempty"`
	// TwoPorts: the server listens on :443 and :80 (ck-server's default binding)
	// with one state, RedirAddr names a host without a port: each peer must reach
	// the redirect host on the port it connected to itself
	TwoPorts bool `json:"two_ports,omitempty"`
}

// c09Stagger spreads the peers' arrivals over a slow hand-over to the target.
func c09Stagger(g *Gen, sc *C09Scenario, prob float64) {
	sc.NoAdmin = g.Bool(0.4)
	if !g.Bool(prob) {
		return
	}
	sc.RedirDialMS = g.Pick(20, 1500, 1500, 8000)
	for i := range sc.Peers {
		sc.Peers[i].StartMS = g.Pick(0, 0, 10, 500, 1000, 3000)
	}
}

var c09Kinds = []string{"hello-fuzzed", "hello-bad-keyshare", "random", "firstbyte", "tls-short", "tls-exact", "tls-over", "tls-random-len", "foreign-hello", "cloak-truncated", "cloak-mutated", "cloak-replay",
	"cloak-unauth-uid", "cloak-bad-method", "cloak-bad-method-live", "http-get", "http-bogus-hidden", "http-long-line", "http-huge"}

func genC09Peer(g *Gen, kind string) C09Peer {
	p := C09Peer{Kind: kind, Seed: g.Rng.Uint64(), Arg: g.Int(0, 255), Extra: g.Pick(0, 0, 1, 100, 5000, 40000)}
	p.Mode = []string{"stay", "stay", "stay", "close", "stall"}[g.Rng.IntN(5)]
	nrep := g.Int(0, 3)
	for i := 0; i < nrep; i++ {
		p.Replies = append(p.Replies, C09Reply{After: g.Pick(1, 1, 5, 100, 600, 3000, 3001), N: g.Pick(1, 7, 500, 20000)})
	}
	p.TargetClosesFirst = g.Bool(0.2)
	ncuts := g.Int(0, 6)
	for i := 0; i < ncuts; i++ {
		p.Cuts = append(p.Cuts, g.Pick(1, 2, 4, 5, 6, 100, 2999, 3000, 3001, g.Int(1, 4000)))
	}
	sortInts(p.Cuts)
	for i := 0; i <= ncuts; i++ {
		p.DelaysMS = append(p.DelaysMS, g.Pick(0, 0, 0, 1, 100, 5000))
	}
	p.StallAt = g.Pick(1, 3, 4, 5, 100)
	return p
}

func genC09(g *Gen) any {
	sc := &C09Scenario{Seed: g.Rng.Uint64(), Partial: g.Bool(0.5)}
	if g.Bool(0.1) {
		sc.TwoPorts = true
		kinds := []string{"http-get", "random", "cloak-unauth-uid", "cloak-bad-method", "http-get"}
		for i := g.Int(2, 3); i > 0; i-- {
			p := genC09Peer(g, kinds[g.Rng.IntN(len(kinds))])
			p.Port80, p.StartMS = g.Bool(0.5), g.Pick(0, 0, 200, 2000)
			sc.Peers = append(sc.Peers, p)
		}
		sc.NoAdmin = g.Bool(0.4)
		return sc
	}
	n := g.Int(1, 3)
	for i := 0; i < n; i++ {
		sc.Peers = append(sc.Peers, genC09Peer(g, c09Kinds[g.Rng.IntN(len(c09Kinds))]))
	}
	c09Stagger(g, sc, 0.4)
	return sc
}

func genC08LiveReplay(g *Gen) any {
	sc := &C09Scenario{Seed: g.Rng.Uint64(), Partial: g.Bool(0.5)}
	for i := g.Int(1, 3); i > 0; i-- {
		p := genC09Peer(g, "cloak-replay")
		p.Mode = "stay"
		sc.Peers = append(sc.Peers, p)
	}
	if g.Bool(0.3) {
		sc.Peers = append(sc.Peers, genC09Peer(g, c09Kinds[g.Rng.IntN(len(c09Kinds))]))
	}
	c09Stagger(g, sc, 0.3)
	return sc
}

// every first byte value, each as its own run (complete)
func genC09FirstByte(g *Gen) any {
	p := genC09Peer(g, "firstbyte")
	p.Arg = g.Idx % 256
	p.Mode = "stay"
	return &C09Scenario{Seed: g.Rng.Uint64(), Peers: []C09Peer{p}}
}

// c09Stream builds the peer's byte stream and the length of its first packet
// (what the server has to read before it can decide).
// c09Genuine: a legitimate client whose first packet is presented before the
// peers act; hold = it completes the handshake and keeps its connection (a live
// session) until the run ends.
type c09Genuine struct {
	hello []byte
	hold  bool
	// abort: the genuine client's connection is reset the moment the server has
	// taken the whole hello - the reply cannot be delivered. The hello has been
	// presented all the same: a copy of it stays a replay.
	abort bool
}

func c09Stream(w *SrvWorld, p C09Peer, extraClients *[]c09Genuine) (s []byte, first int) {
	rng := rand.New(rand.NewPCG(p.Seed, 9))
	rnd := func(n int) []byte { return randBytes(rng, n) }
	tlsRec := func(declared, actual int) []byte {
		b := []byte{0x16, 0x03, 0x01, byte(declared >> 8), byte(declared)}
		return append(b, rnd(actual)...)
	}
	cp := ClientParams{UID: w.Bypass[0], Method: "shadowsocks", Encryption: "aes-gcm", Browser: []string{"chrome", "firefox", "safari"}[rng.IntN(3)], Transport: "direct", NumConn: 1, SessionID: rng.Uint32()}
	hello := func(mod func(*ClientParams)) []byte {
		c := cp
		if mod != nil {
			mod(&c)
		}
		h, err := w.FirstPacket(c, rng)
		if err != nil {
			panic(err)
		}
		return h
	}
	switch p.Kind {
	case "random":
		s = rnd(1 + p.Arg*7)
		for s[0] == 0x16 || s[0] == 0x47 {
			s[0]++
		}
		first = 1
	case "firstbyte":
		s = append([]byte{byte(p.Arg)}, rnd(600)...)
		switch byte(p.Arg) {
		case 0x16:
			binary.BigEndian.PutUint16(s[3:], 300)
			first = 305
		case 0x47:
			copy(s[1:], "ET / HTTP/1.1\r\nHost: x\r\n\r\n")
			first = 1 + len("ET / HTTP/1.1\r\nHost: x\r\n\r\n")
		default:
			first = 1
		}
	case "tls-short": // declared length fits the buffer
		l := 1 + p.Arg*11
		s, first = tlsRec(l, l), 5+l
	case "tls-exact": // exactly fills the 3000-byte buffer
		s, first = tlsRec(2995, 2995), 3000
	case "tls-over": // does not fit: redirect after the header
		l := 2996 + p.Arg*240
		s, first = tlsRec(l, l), 5
	case "tls-random-len":
		l := rng.IntN(65536)
		s = tlsRec(l, l)
		first = 5 + l
		if l+5 > 3000 {
			first = 5
		}
	case "foreign-hello": // a well-formed hello that was not made for this server
		other := NewSrvKey(rng)
		saved := w.PubRaw
		w.PubRaw = other
		s = hello(nil)
		w.PubRaw = saved
		first = len(s)
	case "cloak-truncated":
		h := hello(nil)
		cut := 1 + rng.IntN(len(h)-1)
		// declared record length stays: the server waits for the rest, which never comes unless Extra covers it
		s, first = h[:cut], len(h)
	case "cloak-mutated":
		h := hello(nil)
		// damage the fields that carry the authentication payload (a change
		// elsewhere, e.g. in the server name, leaves a perfectly valid handshake)
		ch, err := parseClientHello(h)
		if err != nil {
			panic(err)
		}
		offs := []int{ch.RandomOff, ch.SessionIDOff, ch.KeyShareOff}
		k := 1 + rng.IntN(4)
		for i := 0; i < k; i++ {
			h[offs[rng.IntN(3)]+rng.IntN(32)] ^= byte(1 + rng.IntN(255))
		}
		s, first = h, len(h)
	case "hello-fuzzed", "hello-bad-keyshare":
		// structurally damaged hellos: the hand-written parsers must cope
		h := hello(nil)
		ch, err := parseClientHello(h)
		if err != nil {
			panic(err)
		}
		h[ch.RandomOff+rng.IntN(31)] ^= byte(1 + rng.IntN(255)) // certainly not authentic any more
		if p.Kind == "hello-bad-keyshare" {
			var ks HelloExt
			for _, e := range ch.Exts {
				if e.Type == 0x33 {
					ks = e
				}
			}
			switch rng.IntN(6) {
			case 5:
				// the hello ends inside the x25519 share: every enclosing length says
				// so consistently, only the entry itself still announces 32 bytes
				cut := ch.KeyShareOff + []int{0, 6, 14, 31}[rng.IntN(4)]
				h = append([]byte(nil), h[:cut]...)
				binary.BigEndian.PutUint16(h[ks.Off:], uint16(cut-(ks.Off+2)))
				binary.BigEndian.PutUint16(h[ks.Off-2:], uint16(cut-ks.Off))
				eo := ch.Exts[0].Off - 6
				binary.BigEndian.PutUint16(h[eo:], uint16(cut-(eo+2)))
				h[6], h[7], h[8] = byte((cut-9)>>16), byte((cut-9)>>8), byte(cut-9)
				binary.BigEndian.PutUint16(h[3:], uint16(cut-5))
			case 0: // list length beyond the extension
				binary.BigEndian.PutUint16(h[ks.Off:], uint16(ks.Len+rng.IntN(4000)))
			case 1: // x25519 entry claims more bytes than there are
				binary.BigEndian.PutUint16(h[ch.KeyShareOff-2:], uint16(33+rng.IntN(60000)))
			case 2: // extension length field too large
				binary.BigEndian.PutUint16(h[ks.Off-2:], uint16(ks.Len+1+rng.IntN(60000)))
			case 3: // group ids damaged: x25519 never found, walk past the end
				for o := ks.Off + 2; o+4 <= ks.Off+ks.Len; {
					l := int(binary.BigEndian.Uint16(h[o+2:]))
					h[o], h[o+1] = 0x7f, byte(rng.IntN(256))
					binary.BigEndian.PutUint16(h[o+2:], uint16(l+rng.IntN(3)))
					o += 4 + l
				}
			default: // key_share extension shrunk to a stub
				binary.BigEndian.PutUint16(h[ks.Off:], uint16(rng.IntN(3)))
			}
		} else {
			for i := 0; i < 1+rng.IntN(3); i++ {
				h[9+rng.IntN(len(h)-9)] ^= byte(1 + rng.IntN(255))
			}
		}
		s, first = h, len(h)
	case "cloak-replay":
		h := hello(nil)
		// the genuine packet is presented first by a legitimate client (see runC09), this peer replays it
		*extraClients = append(*extraClients, c09Genuine{hello: h, abort: p.Arg%3 == 0})
		s, first = append([]byte(nil), h...), len(h)
	case "cloak-unauth-uid":
		// a UID that is on no list: random, or one of the values a blank or
		// half-filled field would hold
		uid := randBytes(rng, 16)
		switch p.Arg % 4 {
		case 0:
			uid = make([]byte, 16)
		case 1:
			uid = bytes.Repeat([]byte{0xff}, 16)
		}
		s = hello(func(c *ClientParams) { c.UID = uid })
		first = len(s)
	case "cloak-bad-method":
		m := []string{"nosuchproxy", "legacy"}[p.Arg%2]
		s = hello(func(c *ClientParams) { c.Method = m })
		first = len(s)
	case "cloak-bad-method-live":
		// the same UID and session id as a session that is live right now, but a
		// proxy method the server does not serve: still relayed, never attached
		*extraClients = append(*extraClients, c09Genuine{hello: hello(nil), hold: true})
		s = hello(func(c *ClientParams) { c.Method = "nosuchproxy" })
		first = len(s)
	case "http-get":
		s = []byte(fmt.Sprintf("GET /index.html HTTP/1.1\r\nHost: example.com\r\nX-Id: %d\r\nUser-Agent: x\r\n\r\n", p.Seed))
		first = len(s)
	case "http-bogus-hidden":
		s = []byte(fmt.Sprintf("GET / HTTP/1.1\r\nX-Id: %d\r\n", p.Seed) + "Host: example.com\r\nUpgrade: websocket\r\nConnection: Upgrade\r\nSec-WebSocket-Key: dGhlIHNhbXBsZSBub25jZQ==\r\nSec-WebSocket-Version: 13\r\nHidden: " + b64(rnd([]int{0, 10, 95, 96, 97, 200}[rng.IntN(6)])) + "\r\n\r\n")
		first = len(s)
	case "http-long-line":
		s = []byte(fmt.Sprintf("GET / HTTP/1.1\r\nX-Id: %d\r\n", p.Seed) + "X-Long: " + strings.Repeat("a", 2900+p.Arg) + "\r\n\r\n")
		first = min(len(s), 3000)
	case "http-huge":
		s = []byte(fmt.Sprintf("GET / HTTP/1.1\r\nX-Id: %d\r\n", p.Seed) + strings.Repeat("X-A: b\r\n", 400))
		first = 3000
	}
	if p.Kind != "cloak-truncated" {
		s = append(s, rnd(p.Extra)...)
	}
	return s, first
}

// dialOrder[k] is the peer behind the k-th connection made to the server (nil: a legitimate client)
var dialOrder []*c09Conn

// c09ByContent: relayed connections are attributed to peers by what they carry
// (two accept loops: the order of the server's tasks is not the dial order)
var c09ByContent bool

type c09Conn struct {
	peer      C09Peer
	stream    []byte
	first     int
	sent      int
	peerGot   []byte
	peerDone  bool
	peerErr   error
	tgtGot    []byte
	tgtSent   []byte
	tgtDone   bool
	tgtSeen   bool
	localPort int
	slow      bool // a delay of more than the server's patience fell before the first packet was complete
}

func runC09(c *Ctx, scAny any) {
	sc := scAny.(*C09Scenario)
	c.Net.DefaultPartial = sc.Partial
	// the ProxyBook also names a method the server cannot serve (a network other
	// than tcp/udp): to a peer it is an unknown method like any other
	w := NewSrvWorld(c, SrvParams{NBypass: 1, NoAdmin: sc.NoAdmin, RedirNoPort: sc.TwoPorts, ProxyBook: map[string][]string{"shadowsocks": {"tcp", "10.0.0.3:8388"}, "legacy": {"unix", "/run/legacy.sock"}}})
	defer w.Cleanup()
	if sc.RedirDialMS > 0 {
		c.Net.DialDelay[redirAddr] = time.Duration(sc.RedirDialMS) * time.Millisecond
	}
	simsync.Go("h:serve", func() { server.Serve(w.Front, w.Sta) })
	c09ByContent = sc.TwoPorts
	var redir80 *simnet.Listener
	if sc.TwoPorts {
		front80 := c.Net.Listen("10.0.0.2:80")
		simsync.Go("h:serve80", func() { server.Serve(front80, w.Sta) })
		redir80 = c.Net.Listen("10.0.0.4:80")
	}
	conns := make([]*c09Conn, len(sc.Peers))
	var genuine []c09Genuine
	for i, p := range sc.Peers {
		s, first := c09Stream(w, p, &genuine)
		conns[i] = &c09Conn{peer: p, stream: s, first: first}
	}
	// the redirect target: which peer is behind a relayed connection is recognised by content (first bytes)
	simsync.Go("h:target", func() {
		for {
			tc, err := w.Redir.Accept()
			if err != nil {
				return
			}
			simsync.Go("h:target-conn", func() { c09Target(c, tc, conns) })
		}
	})
	if redir80 != nil {
		simsync.Go("h:target80", func() {
			for {
				tc, err := redir80.Accept()
				if err != nil {
					return
				}
				simsync.Go("h:target-conn", func() { c09Target(c, tc, conns) })
			}
		})
	}
	// the upstream proxy must never be contacted for these peers
	upstreamHit := false
	simsync.Go("h:upstream", func() {
		for {
			uc, err := w.Upstream["shadowsocks"].Accept()
			if err != nil {
				return
			}
			upstreamHit = true
			uc.Close()
		}
	})
	// legitimate first presentations of packets that a peer will replay
	dialOrder = nil
	pendingGenuine := len(genuine)
	for _, h := range genuine {
		h := h
		simsync.Go("h:genuine", func() {
			held := false
			defer func() {
				if !held {
					pendingGenuine--
				}
			}()
			d := &simnet.Dialer{Net: c.Net, LocalIP: "10.0.0.7"}
			gc, err := d.Dial("tcp", srvAddr)
			if err != nil {
				return
			}
			dialOrder = append(dialOrder, nil)
			if h.abort {
				l := gc.(*simnet.Conn).Link()
				l.Script = append(l.Script, simnet.ScriptedFault{Dir: 0, AtConsumed: int64(len(h.hello)), Kind: "reset"})
				gc.Write(h.hello)
				gc.SetReadDeadline(time.Now().Add(2 * time.Second))
				gc.Read(make([]byte, 16))
				gc.Close()
				// (time passes in these worlds only when nothing else can run: after this
				// the server has done all it will ever do with that connection)
				Sleep(time.Second)
				c.Probe("genuine_hello_reply_lost")
				return
			}
			gc.Write(h.hello)
			b := make([]byte, 2048)
			gc.SetReadDeadline(time.Now().Add(2 * time.Second))
			gc.Read(b) // the server's reply (ServerHello...)
			if h.hold {
				pendingGenuine--
				held = true
				gc.SetReadDeadline(time.Time{})
				gc.Read(b) // stays until the world ends
				return
			}
			gc.Close()
		})
	}
	for i, cn := range conns {
		i, cn := i, cn
		simsync.Go("h:peer", func() {
			for pendingGenuine > 0 {
				Sleep(10 * time.Millisecond)
			}
			if cn.peer.StartMS > 0 {
				Sleep(time.Duration(cn.peer.StartMS) * time.Millisecond)
			}
			d := &simnet.Dialer{Net: c.Net, LocalIP: fmt.Sprintf("10.0.1.%d", i+1)}
			addr := srvAddr
			if cn.peer.Port80 {
				addr = "10.0.0.2:80"
			}
			pc, err := d.Dial("tcp", addr)
			if err != nil {
				c.Fail("setup", "dial", "%v", err)
				return
			}
			dialOrder = append(dialOrder, cn)
			c09Peer(c, pc, cn)
		})
	}
	end := c.Drive(func() bool {
		for _, cn := range conns {
			if !cn.peerDone {
				return false
			}
		}
		return false // run to final quiescence: the oracle is about what remains
	})
	if c.Failed() {
		return
	}
	if end != simsync.EndQuiescent {
		return
	}
	if upstreamHit {
		c.Fail("relay", "upstream-contacted", "an unauthenticated peer caused a connection to the proxy upstream")
		return
	}
	for i, cn := range conns {
		p := cn.peer
		// 1. the peer must have received exactly (a prefix of) what the target sent: no byte of the server's own
		if !bytes.HasPrefix(cn.tgtSent, cn.peerGot) {
			c.Fail("relay", "server-originated-bytes", "peer %d (%s): received %d bytes that are not what the redirect target sent (%d bytes): the server emitted bytes of its own or altered the reply; first bytes % x", i, p.Kind, len(cn.peerGot), len(cn.tgtSent), head(cn.peerGot, 16))
			return
		}
		// 2. the target must have received a prefix of the peer's stream
		if !bytes.HasPrefix(cn.stream[:cn.sent], cn.tgtGot) {
			k := 0
			for k < len(cn.tgtGot) && k < cn.sent && cn.tgtGot[k] == cn.stream[k] {
				k++
			}
			c.Fail("relay", "target-not-prefix", "peer %d (%s): the redirect target received %d bytes that are not a prefix of the %d bytes the peer sent (first difference at %d; first packet is %d bytes)", i, p.Kind, len(cn.tgtGot), cn.sent, k, cn.first)
			return
		}
		if !cn.peerDone {
			c.Fail("relay", "peer-wedged", "peer %d (%s, mode %s): still waiting at final quiescence (sent %d, target got %d, replies %d/%d)\n%s", i, p.Kind, p.Mode, cn.sent, len(cn.tgtGot), len(cn.peerGot), len(cn.tgtSent), c.W.DumpTasks())
			return
		}
		complete := cn.sent >= cn.first && !cn.slow
		if p.Mode == "stay" && complete && !p.TargetClosesFirst {
			// a patient peer that sent a complete first packet: everything is relayed both ways
			if len(cn.tgtGot) != cn.sent {
				c.Fail("relay", "target-incomplete", "peer %d (%s): sent %d bytes (complete first packet of %d) and stayed connected, but the redirect target received only %d (peer read ended with %v)\n%s", i, p.Kind, cn.sent, cn.first, len(cn.tgtGot), cn.peerErr, c.W.DumpTasks())
				return
			}
			if len(cn.peerGot) != len(cn.tgtSent) && !p.TargetClosesFirst {
				c.Fail("relay", "reply-incomplete", "peer %d (%s): the target sent %d bytes, the peer received %d", i, p.Kind, len(cn.tgtSent), len(cn.peerGot))
				return
			}
			c.Probe("relayed_complete:" + p.Kind)
		}
	}
	// nothing of the server may be left working on these connections
	if live := c.W.LiveTasks("internal/server/dispatcher.go"); len(live) > 0 {
		c.Fail("relay", "server-task-left", "every peer and target connection is finished but server tasks remain: %v\n%s", live, c.W.DumpTasks())
		return
	}
	if live := c.W.LiveTasks("internal/common/"); len(live) > 0 {
		c.Fail("relay", "server-task-left", "relay tasks remain: %v", live)
	}
}

func head(b []byte, n int) []byte {
	if len(b) > n {
		return b[:n]
	}
	return b
}

func c09Peer(c *Ctx, pc net.Conn, cn *c09Conn) {
	defer func() { cn.peerDone = true }()
	p := cn.peer
	s := cn.stream
	limit := len(s)
	if p.Mode == "stall" {
		limit = min(len(s), min(p.StallAt, cn.first-1))
	}
	bounds := append([]int(nil), p.Cuts...)
	bounds = append(bounds, limit)
	prev := 0
	var waited time.Duration
	for i, b := range bounds {
		if b > limit {
			b = limit
		}
		if b <= prev {
			continue
		}
		if i < len(p.DelaysMS) && p.DelaysMS[i] > 0 {
			d := time.Duration(p.DelaysMS[i]) * time.Millisecond
			Sleep(d)
			if prev < cn.first {
				waited += d
			}
		}
		if waited >= 14*time.Second {
			cn.slow = true
		}
		if _, err := pc.Write(s[prev:b]); err != nil {
			c.Logf("peer %s: write [%d,%d) failed: %v", p.Kind, prev, b, err)
			break
		}
		cn.sent = b
		prev = b
	}
	if p.Mode == "close" {
		pc.Close()
		return
	}
	// read whatever comes until the connection ends (the server closes a peer
	// that stalls inside its first packet; a relayed one ends with the target)
	buf := make([]byte, 8192)
	for {
		// a patient peer: it gives up only after 40 virtual seconds of silence
		pc.SetReadDeadline(time.Now().Add(40 * time.Second))
		n, err := pc.Read(buf)
		cn.peerGot = append(cn.peerGot, buf[:n]...)
		if err != nil {
			cn.peerErr = err
			break
		}
	}
	pc.Close()
}

func c09Target(c *Ctx, tc net.Conn, conns []*c09Conn) {
	// identify the peer by the first bytes it relays
	c.Logf("target: accepted a connection")
	buf := make([]byte, 8192)
	var got []byte
	var cn *c09Conn
	sentReplies := 0
	for {
		n, err := tc.Read(buf)
		got = append(got, buf[:n]...)
		if cn == nil && len(got) > 0 {
			// the relayed connection is named after the server task that dialled
			// it: dispatcher.go:42#k serves the k-th connection made to the server
			tag := tc.(*simnet.Conn).Link().Tag
			if i := strings.LastIndex(tag, "#"); i >= 0 && strings.Contains(tag, "dispatcher.go") {
				k := 0
				fmt.Sscanf(tag[i+1:], "%d", &k)
				if k < len(dialOrder) {
					cn = dialOrder[k]
				}
			}
			if c09ByContent {
				cn = nil
				var cands []*c09Conn
				for _, x := range conns {
					k := min(len(got), len(x.stream))
					if !x.tgtSeen && k > 0 && bytes.Equal(got[:k], x.stream[:k]) {
						cands = append(cands, x)
					}
				}
				if len(cands) > 1 && err == nil {
					continue // two peers begin alike: read on
				}
				for _, x := range cands {
					// (of peers that begin alike, one that has sent that much)
					if cn == nil || cn.sent < len(got) && x.sent >= len(got) {
						cn = x
					}
				}
				if cn != nil {
					port, want := tc.LocalAddr().(*net.TCPAddr).Port, 443
					if cn.peer.Port80 {
						want = 80
					}
					if port != want {
						c.Fail("relay", "wrong-target-port", "a peer (%s) that connected to the server's port %d was relayed to port %d of the redirect host (RedirAddr names no port: the peer's own port applies)", cn.peer.Kind, want, port)
						tc.Close()
						return
					}
					c.Probe("relayed_to_own_port")
				}
			}
			if cn != nil {
				cn.tgtSeen = true
			}
			if cn == nil {
				c.Fail("relay", "target-foreign-bytes", "the redirect target received %d bytes that no peer sent: % x", len(got), head(got, 24))
				tc.Close()
				return
			}
		}
		if cn != nil {
			cn.tgtGot = got
			c.Logf("target: %d bytes so far for peer %s (err %v)", len(got), cn.peer.Kind, err)
			for sentReplies < len(cn.peer.Replies) && cn.peer.Replies[sentReplies].After <= len(got) {
				r := make([]byte, cn.peer.Replies[sentReplies].N)
				fillPat(r, cn.peer.Seed, uint32(sentReplies), 9, 0)
				if _, werr := tc.Write(r); werr != nil {
					break
				}
				cn.tgtSent = append(cn.tgtSent, r...)
				sentReplies++
			}
			if cn.peer.TargetClosesFirst && sentReplies == len(cn.peer.Replies) {
				break
			}
		}
		if err != nil {
			break
		}
	}
	tc.Close()
	if cn != nil {
		cn.tgtDone = true
	}
	_ = io.EOF
}

func init() {
	pol := func(g *Gen) simsync.PolicyConfig {
		p := SwarmPolicy(g)
		p.Stall = 0
		return p
	}
	newSc := func() any { return &C09Scenario{} }
	register(&Family{Name: "c09-firstbyte", Enumerated: true, Count: func(string) int { return 256 }, Gen: genC09FirstByte, New: newSc, Run: runC09, Policy: pol, VirtCap: 5 * time.Minute})
	register(&Family{Name: "c09-peers", Count: func(tier string) int { return map[string]int{"quick": 3000, "thorough": 100000}[tier] },
		Gen: genC09, New: newSc, Run: runC09, Policy: pol, VirtCap: 5 * time.Minute})
	// c08-history under C09: a replaying prober is an unauthenticated peer; an
	// accepted replay (sequential, N at once, across clean-ups, in the other
	// transport's envelope) is answered with the server's own handshake reply
	// c07-unauth-peers under C09: valid hellos that are refused late (unknown
	// user or method), next to bystanders, with a slow hand-over to the target
	// c08-live-replay (C08, C09): captured hellos replayed to the running server -
	// through the dispatcher, not AuthFirstPacket alone - after the genuine
	// presentation completed or lost its reply to a reset
	register(&Family{Name: "c08-live-replay", Count: func(tier string) int { return map[string]int{"quick": 500, "thorough": 20000}[tier] },
		Gen: genC08LiveReplay, New: newSc, Run: runC09, Policy: pol, VirtCap: 5 * time.Minute})
	plans["C09"] = []string{"c09-firstbyte", "c09-peers", "c08-history", "c07-unauth-peers", "c08-live-replay"}
}
