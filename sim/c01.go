package verifsim

import (
	"fmt"
	"io"
	"net"
	"time"

	"github.com/cbeuw/Cloak/internal/common"
	mux "github.com/cbeuw/Cloak/internal/multiplex"
	"github.com/cbeuw/Cloak/internal/simsync"
)

// ---- C01: ordered streams deliver exactly the written bytes ----

type StreamPlan struct {
	FromServer bool   `json:"from_server,omitempty"` // which side opens (always the client: both sides number their streams from 1, so Cloak only supports client-opened streams)
	Up         int    `json:"up"`                    // bytes opener -> acceptor (after the tag)
	Down       int    `json:"down"`                  // bytes acceptor -> opener
	SizeClass  int    `json:"size_class"`
	SizeSeed   uint64 `json:"size_seed"`
	ReadBuf    int    `json:"read_buf"`
	ViaCopyW   bool   `json:"via_copy_w,omitempty"` // opener writes through common.Copy -> Stream.ReadFrom
	ViaCopyR   bool   `json:"via_copy_r,omitempty"` // acceptor side relays through common.Copy to a local conn
	// timer phases: the opener waits StartMS (virtual) before opening, both
	// writers pause PauseMS once half-way, and the opener closes the stream when
	// it has written and read everything
	StartMS    int  `json:"start_ms,omitempty"`
	PauseMS    int  `json:"pause_ms,omitempty"`
	CloseAfter bool `json:"close_after,omitempty"`
	// HoldReader: the accepting application stops reading this stream (after its
	// tag) until every other stream of the session has completed
	HoldReader bool `json:"hold_reader,omitempty"`
}

type C01Scenario struct {
	Sess    SessParams   `json:"sess"`
	PatKey  uint64       `json:"pat_key"`
	Streams []StreamPlan `json:"streams"`
}

type streamState struct {
	plan     StreamPlan
	tag      uint32
	upRead   int
	downRead int
	upDone   bool
	downDone bool
	// harnessClosed: the workload itself closed this stream (C12 stream churn);
	// errors on it are then expected
	harnessClosed bool
}

func genSessParams(g *Gen, maxConn int) SessParams {
	p := SessParams{Method: byte(g.Int(0, 3)), NConn: g.Int(1, maxConn), InactS: 3600}
	switch g.Int(0, 3) {
	case 0:
		p.WireLimit = g.Int(minWireLimit, 2000)
	case 1:
		p.WireLimit = g.Pick(minWireLimit, 1024, 4096, 16401)
	default:
		p.WireLimit = 0 // default 16640
	}
	p.LateConns = g.Bool(0.6)
	if p.LateConns {
		for i := 1; i < p.NConn; i++ {
			p.LateAfter = append(p.LateAfter, g.Pick(0, 0, 1, 8, 9, 100, 1000, 5000))
		}
	}
	if g.Bool(0.5) {
		for i := 0; i < p.NConn; i++ {
			p.Weights = append(p.Weights, []float64{1, 1, 0.3, 0.05, 0.01}[g.Rng.IntN(5)])
		}
	}
	p.Partial = g.Bool(0.5)
	if g.Bool(0.25) {
		k := g.Int(1, 3)
		for i := 0; i < k; i++ {
			p.Stalls = append(p.Stalls, StallPlan{Link: g.Int(0, p.NConn-1), Dir: g.Int(0, 1), DurMS: g.Pick(1, 50, 1000, 20000)})
		}
	}
	return p
}

// share of singleplex sessions among the general c01-sess scenarios (c02-sess: half)
var c01SingleplexShare = 0.08

// genC02Sess: the general c01-sess scenarios only (no special variants), half of
// them singleplex - under C02 the question is whether what a stream delivers
// depends on how its frames arrived, whatever kind of session it belongs to.
func genC02Sess(g *Gen) any {
	sc := &C01Scenario{PatKey: g.Rng.Uint64()}
	old := c01SingleplexShare
	c01SingleplexShare = 0.5
	defer func() { c01SingleplexShare = old }()
	return genC01General(g, sc)
}

func genC01(g *Gen) any {
	sc := &C01Scenario{PatKey: g.Rng.Uint64()}
	if g.Bool(0.08) {
		// a lagging connection: hundreds of small frames overtake the ones in
		// flight on a connection that is stalled (or almost never served)
		sc.Sess = SessParams{Method: byte(g.Int(0, 3)), NConn: g.Int(2, 4), InactS: 3600, WireLimit: g.Pick(0, minWireLimit)}
		lag := g.Int(0, sc.Sess.NConn-1)
		if g.Bool(0.5) {
			sc.Sess.Stalls = []StallPlan{{Link: lag, Dir: g.Int(0, 1), DurMS: 30000}}
		} else {
			for i := 0; i < sc.Sess.NConn; i++ {
				wt := 1.0
				if i == lag {
					wt = 0.0005
				}
				sc.Sess.Weights = append(sc.Sess.Weights, wt)
			}
		}
		n := g.Int(3000, 6000)
		sc.Streams = []StreamPlan{{SizeClass: 0, SizeSeed: g.Rng.Uint64(), ReadBuf: 40000, Up: n * g.Pick(0, 1, 1), Down: n * g.Pick(0, 1, 1)}}
		if sc.Streams[0].Up+sc.Streams[0].Down == 0 {
			sc.Streams[0].Up = n
		}
		return sc
	}
	if g.Bool(0.08) {
		// timer phases: the session goes idle (its only stream is closed), then
		// new streams are opened before the inactivity timeout and stay busy,
		// with pauses, well beyond it: a session with open streams keeps working
		T := g.Pick(2, 10, 30)
		sc.Sess = SessParams{Method: byte(g.Int(0, 3)), NConn: g.Int(1, 4), InactS: T, Partial: g.Bool(0.5)}
		sc.Streams = []StreamPlan{{SizeClass: g.Int(1, 4), SizeSeed: g.Rng.Uint64(), ReadBuf: 16384, Up: g.Int(1, 3000), Down: g.Int(0, 3000), CloseAfter: true}}
		k := g.Int(1, 3)
		for i := 0; i < k; i++ {
			sc.Streams = append(sc.Streams, StreamPlan{SizeClass: g.Int(1, 4), SizeSeed: g.Rng.Uint64(), ReadBuf: 16384, Up: g.Int(2, 5000), Down: g.Int(0, 5000),
				StartMS: T * g.Pick(100, 500, 900, 999), PauseMS: T * g.Pick(600, 1100, 2500), CloseAfter: g.Bool(0.3)})
		}
		return sc
	}
	if g.Bool(0.03) {
		// a consumer that falls behind: megabytes arrive for a stream whose
		// receiving application has stopped reading; the other streams of the
		// session keep working meanwhile (nothing is unhealthy, nobody closed)
		sc.Sess = SessParams{Method: byte(g.Int(0, 3)), NConn: g.Int(1, 4), InactS: 3600, Partial: g.Bool(0.3)}
		sc.Streams = []StreamPlan{{SizeClass: 3, SizeSeed: g.Rng.Uint64(), ReadBuf: 65536, Up: g.Pick(1200000, 2500000, 4500000, 9000000), HoldReader: true}}
		for k := g.Int(1, 3); k > 0; k-- {
			sc.Streams = append(sc.Streams, StreamPlan{SizeClass: g.Int(1, 4), SizeSeed: g.Rng.Uint64(), ReadBuf: 16384, Up: g.Int(1, 20000), Down: g.Int(0, 20000), StartMS: g.Pick(0, 0, 1000)})
		}
		return sc
	}
	return genC01General(g, sc)
}

func genC01General(g *Gen, sc *C01Scenario) any {
	sc.Sess = genSessParams(g, 8)
	maxStreams, maxBytes := 6, 30000
	if g.Tier == "thorough" {
		maxStreams, maxBytes = 24, 120000
	}
	ns := g.Int(1, maxStreams)
	if g.Bool(0.1) {
		ns = g.Int(maxStreams, maxStreams*4) // many small streams
		maxBytes = 2000
	}
	if g.Bool(c01SingleplexShare) {
		// ck-client with NumConn=0: a session of one connection and one stream
		// (an ordered stream all the same: read buffers smaller than a frame)
		sc.Sess.Singleplex, sc.Sess.NConn = true, 1
		sc.Sess.LateConns, sc.Sess.LateAfter, sc.Sess.Weights = false, nil, nil
		ns = 1
	}
	for i := 0; i < ns; i++ {
		pl := StreamPlan{SizeClass: g.Int(0, 4), SizeSeed: g.Rng.Uint64(), ReadBuf: g.Pick(1, 7, 512, 3000, 16384, 40000)}
		// keep the step count of a run in the thousands: small buffers and
		// tiny writes get proportionally fewer bytes
		lim := min(maxBytes, 100*pl.ReadBuf)
		switch pl.SizeClass {
		case 0:
			lim = min(lim, 300)
		case 1, 4:
			lim = min(lim, maxBytes/2)
		}
		pl.Up = g.Int(0, lim)
		pl.Down = g.Int(0, lim)
		if g.Bool(0.2) {
			pl.Up = g.Int(0, 20)
		}
		if g.Bool(0.2) {
			pl.Down = 0
		}
		pl.ViaCopyW = g.Bool(0.25)
		pl.ViaCopyR = g.Bool(0.2)
		sc.Streams = append(sc.Streams, pl)
	}
	return sc
}

type streamWorkload struct {
	c      *Ctx
	sw     *SessWorld
	sRead  int // bytes read so far by the accepting side
	key    uint64
	limit  int
	states []*streamState
	errCtx string
}

func (wl *streamWorkload) done() bool {
	for _, s := range wl.states {
		if !s.upDone || !s.downDone {
			return false
		}
	}
	return true
}

// writePat writes n pattern bytes of (tag,dir) to w in plan-sized chunks.
func (wl *streamWorkload) writePat(w io.Writer, st *streamState, dir, n int, what string) bool {
	ss := &sizeSeq{class: st.plan.SizeClass, limit: wl.limit, x: st.plan.SizeSeed + uint64(dir)}
	off := 0
	paused := st.plan.PauseMS <= 0
	for off < n {
		if !paused && off >= n/2 {
			paused = true
			Sleep(time.Duration(st.plan.PauseMS) * time.Millisecond)
		}
		k := ss.next()
		if off+k > n {
			k = n - off
		}
		buf := make([]byte, k)
		fillPat(buf, wl.key, st.tag, dir, off)
		m, err := w.Write(buf)
		// the caller's buffer may be reused after Write returns
		for i := range buf {
			buf[i] = 0xEE
		}
		if err != nil || m != k {
			wl.c.Fail("stream-error", "error:write", "%s stream tag %d: Write of %d bytes at offset %d returned (%d, %v) on a healthy session", what, st.tag, k, off, m, err)
			return false
		}
		off += k
	}
	return true
}

// readPat reads n pattern bytes of (tag,dir) from r verifying each chunk.
func (wl *streamWorkload) readPat(r io.Reader, st *streamState, dir, n int, progress *int, what string) bool {
	buf := make([]byte, st.plan.ReadBuf)
	for *progress < n {
		m, err := r.Read(buf)
		if m > 0 {
			if *progress+m > n {
				wl.c.Fail("stream-data", "data:excess", "%s stream tag %d dir %d: read %d bytes beyond the %d written", what, st.tag, dir, *progress+m-n, n)
				return false
			}
			if i := checkPat(buf[:m], wl.key, st.tag, dir, *progress); i >= 0 {
				wl.c.Fail("stream-data", "data:mismatch", "%s stream tag %d dir %d: byte at offset %d is %#x, want %#x (read of %d bytes at %d)", what, st.tag, dir, *progress+i, buf[i], pat(wl.key, st.tag, dir, *progress+i), m, *progress)
				return false
			}
			*progress += m
			if dir == 0 && wl.sw != nil {
				wl.sRead += m
				wl.sw.Progress(wl.sRead)
			}
		}
		if err != nil {
			wl.c.Fail("stream-error", "error:read", "%s stream tag %d dir %d: Read returned %v after %d of %d bytes on a healthy session", what, st.tag, dir, err, *progress, n)
			return false
		}
	}
	return true
}

// relay returns the harness end of a local conn whose other end is copied
// to/from the stream by common.Copy (as RouteTCP / serveSession do).
func (wl *streamWorkload) relayInto(stream net.Conn) net.Conn {
	a, b := wl.c.Net.Pipe("local")
	simsync.Go("h:copy-in", func() { common.Copy(stream, b) })
	return a
}

func (wl *streamWorkload) relayOutOf(stream net.Conn) net.Conn {
	a, b := wl.c.Net.Pipe("local")
	simsync.Go("h:copy-out", func() { common.Copy(b, stream) })
	return a
}

func (wl *streamWorkload) opener(sesh *mux.Session, st *streamState) {
	if st.plan.StartMS > 0 {
		Sleep(time.Duration(st.plan.StartMS) * time.Millisecond)
	}
	stream, err := sesh.OpenStream()
	if err != nil {
		wl.c.Fail("stream-error", "error:open", "OpenStream on a healthy session: %v", err)
		return
	}
	var w io.Writer = stream
	if st.plan.ViaCopyW {
		w = wl.relayInto(stream)
	}
	wdone := make(chan struct{})
	simsync.Go("h:opener-w", func() {
		defer close(wdone)
		if _, err := w.Write(putTag(st.tag)); err != nil {
			wl.c.Fail("stream-error", "error:write", "writing tag: %v", err)
			return
		}
		wl.writePat(w, st, 0, st.plan.Up, "opener")
	})
	ok := wl.readPat(stream, st, 1, st.plan.Down, &st.downRead, "opener")
	if ok && st.plan.CloseAfter && !st.plan.ViaCopyW {
		// everything was read; once everything is written too and has arrived,
		// the application is done with this stream
		Await(wdone)
		for !st.upDone && !wl.c.Failed() {
			Sleep(time.Millisecond)
		}
		st.harnessClosed = true
		stream.Close()
	}
	if ok {
		st.downDone = true
	}
}

func (wl *streamWorkload) acceptLoop(sesh *mux.Session) {
	for {
		conn, err := sesh.Accept()
		if err != nil {
			if !wl.c.W.Stopping() && !wl.done() {
				wl.c.Fail("stream-error", "error:accept", "Accept on a healthy session: %v", err)
			}
			return
		}
		simsync.Go("h:acceptor", func() { wl.acceptor(conn) })
	}
}

func (wl *streamWorkload) acceptor(stream net.Conn) {
	var r io.Reader = stream
	tagb := make([]byte, tagLen)
	if _, err := io.ReadFull(r, tagb); err != nil {
		wl.c.Fail("stream-error", "error:read", "acceptor reading tag: %v", err)
		return
	}
	if wl.sw != nil {
		wl.sRead += tagLen
		wl.sw.Progress(wl.sRead)
	}
	tag, ok := getTag(tagb)
	if !ok || int(tag) >= len(wl.states) {
		wl.c.Fail("stream-data", "data:mismatch", "accepted stream starts with %x, not a tag", tagb)
		return
	}
	st := wl.states[tag]
	if st.plan.HoldReader {
		others := func() bool {
			for _, o := range wl.states {
				if o != st && (!o.upDone || !o.downDone) {
					return false
				}
			}
			return true
		}
		// virtual time passes only when nothing else can run: ten minutes of it
		// mean the other streams cannot move at all
		for i := 0; !others() && !wl.c.Failed(); i++ {
			if i == 600 {
				wl.c.Fail("stream-liveness", "stuck:behind-unread-stream", "stream tag %d has unread data pending and its application is not reading; the other streams of the healthy session stopped moving for 10 virtual minutes\n%s", st.tag, wl.c.W.DumpTasks())
				return
			}
			Sleep(time.Second)
		}
		wl.c.Probe("reader_held_until_others_done")
	}
	if st.plan.ViaCopyR {
		r = wl.relayOutOf(stream)
	}
	simsync.Go("h:acceptor-w", func() { wl.writePat(stream, st, 1, st.plan.Down, "acceptor") })
	if wl.readPat(r, st, 0, st.plan.Up, &st.upRead, "acceptor") {
		st.upDone = true
	}
}

func runC01(c *Ctx, scAny any) {
	sc := scAny.(*C01Scenario)
	sw := NewSessWorld(c, sc.Sess, nil, nil)
	runStreamWorkload(c, sw, sc.PatKey, sc.Streams)
}

func runStreamWorkload(c *Ctx, sw *SessWorld, patKey uint64, plans []StreamPlan) {
	limit := sw.P.WireLimit
	if limit <= 0 {
		limit = 16640
	}
	wl := &streamWorkload{c: c, sw: sw, key: patKey, limit: limit - 14 - 255}
	for i, pl := range plans {
		wl.states = append(wl.states, &streamState{plan: pl, tag: uint32(i)})
	}
	simsync.Go("h:accept-c", func() { wl.acceptLoop(sw.C) })
	simsync.Go("h:accept-s", func() { wl.acceptLoop(sw.S) })
	for _, st := range wl.states {
		sesh := sw.C
		if st.plan.FromServer {
			sesh = sw.S
		}
		simsync.Go("h:opener", func() { wl.opener(sesh, st) })
	}
	end := c.Drive(wl.done)
	if c.Failed() {
		return
	}
	if sw.C.IsClosed() || sw.S.IsClosed() {
		c.Fail("session-alive", "session-closed:"+firstNonEmpty(sw.C.TerminalMsg(), sw.S.TerminalMsg()), "session closed although every connection is healthy and nobody closed it: client closed=%v (%q) server closed=%v (%q)", sw.C.IsClosed(), sw.C.TerminalMsg(), sw.S.IsClosed(), sw.S.TerminalMsg())
		return
	}
	if end == simsync.EndQuiescent && !wl.done() {
		var stuck []string
		for _, s := range wl.states {
			if !s.upDone || !s.downDone {
				stuck = append(stuck, fmt.Sprintf("tag %d up %d/%d down %d/%d", s.tag, s.upRead, s.plan.Up, s.downRead, s.plan.Down))
			}
		}
		c.Fail("stream-liveness", "stuck", "final quiescence with undelivered data (nothing can move any more): %v\n%s", stuck, c.W.DumpTasks())
	}
	if sw.P.LateConns {
		c.Probe("late_conns")
	}
}

func firstNonEmpty(a ...string) string {
	for _, s := range a {
		if s != "" {
			return s
		}
	}
	return ""
}

func init() {
	register(&Family{
		Name:  "c01-sess",
		Count: func(tier string) int { return map[string]int{"quick": 6000, "thorough": 300000}[tier] },
		Gen:   genC01,
		New:   func() any { return &C01Scenario{} },
		Run:   runC01,
		// (a cap only: the held-reader runs move megabytes, a few thousand steps a frame)
		MaxSteps: 6000000,
		Policy: func(g *Gen) simsync.PolicyConfig {
			p := SwarmPolicy(g)
			p.Stall = 0 // time passes only when nothing else can happen (inactivity timer must not fire spuriously)
			return p
		},
	})
	plans["C01"] = []string{"c01-sess"}
	register(&Family{
		Name:     "c02-sess",
		Count:    func(tier string) int { return map[string]int{"quick": 800, "thorough": 30000}[tier] },
		Gen:      genC02Sess,
		New:      func() any { return &C01Scenario{} },
		Run:      runC01,
		MaxSteps: 6000000,
		Policy: func(g *Gen) simsync.PolicyConfig {
			p := SwarmPolicy(g)
			p.Stall = 0
			return p
		},
	})
}
