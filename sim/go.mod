module github.com/cbeuw/Cloak/verifsim

go 1.26

require (
	github.com/cbeuw/Cloak v0.0.0
	github.com/gorilla/websocket v1.5.3
	github.com/refraction-networking/utls v1.7.3
	github.com/sirupsen/logrus v1.9.3
	golang.org/x/crypto v0.37.0
)

require (
	github.com/andybalholm/brotli v1.1.1 // indirect
	github.com/cloudflare/circl v1.6.1 // indirect
	github.com/gorilla/mux v1.8.1 // indirect
	github.com/juju/ratelimit v1.0.2 // indirect
	github.com/klauspost/compress v1.18.0 // indirect
	go.etcd.io/bbolt v1.4.0 // indirect
	golang.org/x/sys v0.32.0 // indirect
)

replace github.com/cbeuw/Cloak => /repo
