module github.com/cbeuw/Cloak/verifsim

go 1.26

require (
	github.com/cbeuw/Cloak v0.0.0
	github.com/sirupsen/logrus v1.9.3
)

require (
	github.com/gorilla/websocket v1.5.3 // indirect
	github.com/juju/ratelimit v1.0.2 // indirect
	golang.org/x/crypto v0.37.0 // indirect
	golang.org/x/sys v0.32.0 // indirect
)

replace github.com/cbeuw/Cloak => /repo
