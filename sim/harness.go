// Package verifsim holds the worlds, oracles and per-property scenario
// families of the deterministic simulator (DESIGN.md 2.6, 5). It is compiled
// as a test binary (worker) by /verif/bin/verif against an instrumented
// overlay of /repo.
package verifsim

import (
	"encoding/json"
	"fmt"
	"hash/fnv"
	"io"
	"math/rand/v2"
	"os"
	"runtime"
	"runtime/debug"
	"sort"
	"strings"
	"testing"
	"testing/cryptotest"
	"testing/synctest"
	"time"

	"github.com/cbeuw/Cloak/internal/simsync"
	"github.com/cbeuw/Cloak/verifsim/simnet"
	log "github.com/sirupsen/logrus"
)

// Family is one scenario family: a generator of cases and the code that runs
// a case inside a fresh world.
type Family struct {
	Name string
	// Count is the number of cases for a tier. For enumerated families this
	// is the size of the (complete) enumeration.
	Count      func(tier string) int
	Enumerated bool
	// Gen builds case number idx. It must be a pure function of (g.Rng, idx, tier).
	Gen func(g *Gen) any
	// New returns an empty scenario value for JSON decoding (replay).
	New func() any
	// Run executes the case; it must call c.Drive.
	Run func(c *Ctx, sc any)
	// Policy chooses the scheduling policy for a case (nil: default swarm).
	Policy func(g *Gen) simsync.PolicyConfig
	// NoSched: the family does not use the scheduler (pure sequential case in a bubble)
	MaxSteps int
	VirtCap  time.Duration
}

type Gen struct {
	Rng  *rand.Rand
	Idx  int
	Tier string
}

func (g *Gen) Int(lo, hi int) int { // inclusive
	if hi <= lo {
		return lo
	}
	return lo + g.Rng.IntN(hi-lo+1)
}
func (g *Gen) Pick(xs ...int) int  { return xs[g.Rng.IntN(len(xs))] }
func (g *Gen) Bool(p float64) bool { return g.Rng.Float64() < p }

var families = map[string]*Family{}

func register(f *Family) { families[f.Name] = f }

// PropertyPlan lists the families deciding a property.
var plans = map[string][]string{}

// RunSpec identifies one run completely.
type RunSpec struct {
	Prop     string               `json:"property"`
	Family   string               `json:"family"`
	Tier     string               `json:"tier"`
	Seed     uint64               `json:"seed"`
	Idx      int                  `json:"idx"`
	Scenario json.RawMessage      `json:"scenario"`
	Policy   simsync.PolicyConfig `json:"policy"`
	Trace    []simsync.Decision   `json:"trace,omitempty"`
	Replay   string               `json:"replay,omitempty"` // "", "strict", "tolerant"
}

type RunResult struct {
	Spec      RunSpec            `json:"spec"`
	Outcome   string             `json:"outcome"` // ok | violation | inconclusive
	End       string             `json:"end"`
	Oracle    string             `json:"oracle,omitempty"`
	Signature string             `json:"signature,omitempty"`
	Message   string             `json:"message,omitempty"`
	Steps     int                `json:"steps"`
	Switches  int                `json:"switches"`
	NonDef    int                `json:"nondefault"`
	VirtMS    int64              `json:"virt_ms"`
	Hash      string             `json:"hash"`
	ILHash    string             `json:"il_hash"`
	Faults    map[string]int     `json:"faults,omitempty"`
	Probes    map[string]int     `json:"probes,omitempty"`
	Classes   map[string]int     `json:"classes,omitempty"`
	Trace     []simsync.Decision `json:"trace,omitempty"`
	WallUS    int64              `json:"wall_us"`
	GCs       uint32             `json:"gcs,omitempty"`
	sitePairs map[string]struct{}
	Log       []string `json:"log,omitempty"`
}

// Ctx is what a family's Run sees.
type Ctx struct {
	T      *testing.T
	W      *simsync.World
	Net    *simnet.Net
	Spec   *RunSpec
	Rng    *rand.Rand // harness-side draws that are part of the scenario execution (never for scheduling)
	res    *RunResult
	failed bool
	logOn  bool
	// PostCheck hooks run by Drive after the world ended, before teardown
	Known map[string]bool
}

// Fail records a violation (first one wins).
func (c *Ctx) Fail(oracle, sig, format string, a ...any) {
	if c.failed || c.res.Outcome == "inconclusive" || c.res.Outcome == "diverged" {
		// a run cut short by a cap is never judged: its state is partial
		return
	}
	c.failed = true
	c.res.Outcome = "violation"
	c.res.Oracle = oracle
	c.res.Signature = c.Spec.Prop + ":" + sig
	c.res.Message = fmt.Sprintf(format, a...)
}

func (c *Ctx) Failed() bool { return c.failed }

func (c *Ctx) Inconclusive(why string) {
	if c.failed || c.res.Outcome == "inconclusive" {
		return
	}
	c.res.Outcome = "inconclusive"
	c.res.Message = why
	c.res.Probes["inconclusive:"+why+"|"+c.Spec.Family+"|"+c.Spec.Policy.Kind]++
}

func (c *Ctx) Probe(name string) { c.res.Probes[name]++ }

func (c *Ctx) Logf(format string, a ...any) {
	if c.logOn && len(c.res.Log) < 2000 {
		c.res.Log = append(c.res.Log, fmt.Sprintf("[%d %v] ", c.W.Steps, c.W.Elapsed())+fmt.Sprintf(format, a...))
	}
}

func panicSig(p string) string {
	// first Cloak (or third-party) frame below the panic
	lines := strings.Split(p, "\n")
	// prefer the innermost frame of Cloak's own code
	for i, l := range lines {
		if strings.HasPrefix(l, "panic(") {
			for j := i + 2; j < len(lines); j += 2 {
				fn := strings.TrimSpace(lines[j])
				if strings.Contains(fn, "cbeuw/Cloak/internal/") && !strings.Contains(fn, "/simsync.") && !strings.Contains(fn, "/verifsim") {
					if k := strings.LastIndex(fn, "("); k > 0 {
						fn = fn[:k]
					}
					return fn[strings.LastIndex(fn, "/")+1:]
				}
			}
		}
	}
	for i, l := range lines {
		if strings.HasPrefix(l, "panic(") {
			for j := i + 2; j < len(lines); j += 2 {
				fn := strings.TrimSpace(lines[j])
				if fn == "" {
					break
				}
				if k := strings.LastIndex(fn, "("); k > 0 {
					fn = fn[:k]
				}
				if strings.HasPrefix(fn, "runtime.") {
					continue
				}
				if k := strings.LastIndex(fn, "/"); k >= 0 {
					fn = fn[k+1:]
				}
				return fn
			}
		}
	}
	return "unknown"
}

// Drive runs the scheduler until done() and maps generic endings to verdicts.
// It returns the End so that the family can add its own post-checks.
func (c *Ctx) Drive(done func() bool) simsync.End {
	end := c.W.Run(func() bool { return c.failed || (done != nil && done()) })
	c.res.End = end.String()
	switch end {
	case simsync.EndPanic:
		p := c.W.Panics[0]
		c.Fail("no-panic", "panic:"+panicSig(p), "a task panicked: %s", p)
	case simsync.EndDeadlock:
		sites := c.W.DeadlockSites
		c.Fail("no-deadlock", "deadlock:"+strings.Join(sites, "<->"), "lock cycle: %s", c.W.Deadlock)
	case simsync.EndViolation:
		v := c.W.Violation
		sig := v
		if i := strings.Index(v, "|"); i >= 0 {
			sig, v = v[:i], v[i+1:]
		}
		c.Fail("invariant", sig, "%s", v)
	case simsync.EndStepCap:
		c.Inconclusive("step cap reached")
	case simsync.EndTimeCap:
		c.Inconclusive("virtual-time cap reached while tasks were still runnable")
	case simsync.EndDiverged:
		c.res.Outcome = "diverged"
		c.res.Message = c.W.Diverged
	}
	return end
}

var quietOnce bool

func quiet() {
	if quietOnce {
		return
	}
	quietOnce = true
	log.SetOutput(io.Discard)
	log.SetLevel(log.PanicLevel)
	log.StandardLogger().ExitFunc = func(int) { panic("log.Fatal called") }
	debug.SetGCPercent(-1)
}

func mix(a, b uint64) uint64 {
	h := fnv.New64a()
	var buf [16]byte
	for i := 0; i < 8; i++ {
		buf[i] = byte(a >> (8 * i))
		buf[8+i] = byte(b >> (8 * i))
	}
	h.Write(buf[:])
	return h.Sum64()
}

func famSalt(name string) uint64 {
	h := fnv.New64a()
	h.Write([]byte(name))
	return h.Sum64()
}

// MakeSpec generates the spec of case idx of a family.
func MakeSpec(prop string, f *Family, tier string, seed uint64, idx int) RunSpec {
	g := &Gen{Rng: rand.New(rand.NewPCG(seed, mix(famSalt(f.Name), uint64(idx)))), Idx: idx, Tier: tier}
	sc := f.Gen(g)
	raw, err := json.Marshal(sc)
	if err != nil {
		panic(err)
	}
	var pol simsync.PolicyConfig
	if f.Policy != nil {
		pol = f.Policy(g)
	} else {
		pol = SwarmPolicy(g)
	}
	return RunSpec{Prop: prop, Family: f.Name, Tier: tier, Seed: seed, Idx: idx, Scenario: raw, Policy: pol}
}

// SwarmPolicy draws one scheduling policy per run.
func SwarmPolicy(g *Gen) simsync.PolicyConfig {
	p := simsync.PolicyConfig{NetOrder: "random", Partial: 0.3}
	switch g.Rng.IntN(10) {
	case 0:
		p.Kind = "rtb"
		if g.Bool(0.5) {
			p.NetOrder = "fifo"
		}
	case 1, 2:
		p.Kind, p.Eps = "eps", 0.003
	case 3, 4:
		p.Kind, p.Eps = "eps", 0.03
	case 5:
		p.Kind, p.Eps = "eps", 0.3
	case 6, 7:
		p.Kind, p.Depth, p.Len = "pct", g.Int(1, 3), g.Pick(500, 3000, 20000)
	case 8:
		p.Kind, p.HotPct, p.HotHold, p.Eps = "hot", g.Pick(2, 5, 10), g.Pick(5, 20, 60), 0.003
	default:
		if g.Bool(0.5) {
			p.Kind, p.HotPct, p.HotHold, p.Eps = "park", g.Pick(1, 3, 10), g.Pick(300, 3000, 30000), 0.001
		} else {
			p = Pre1Policy(g, p)
		}
	}
	p.NetEarly = []float64{0, 0.01, 0.1, 0.4}[g.Rng.IntN(4)]
	if g.Bool(0.2) {
		p.Stall = 0.002
	}
	return p
}

// Pre1Policy: one long preemption of each system task at a chosen yield ordinal
// (small ordinals are the most likely: background passes are short).
func Pre1Policy(g *Gen, p simsync.PolicyConfig) simsync.PolicyConfig {
	p.Kind, p.PreSys, p.HotHold = "pre1", g.Bool(0.7), g.Pick(300, 3000, 30000)
	p.PreAt = g.Pick(g.Int(0, 12), g.Int(0, 40), g.Int(0, 200), g.Int(0, 2000))
	return p
}

// Execute runs one spec in a fresh bubble and world.
func Execute(t *testing.T, spec RunSpec, known map[string]bool, keepLog bool) (res RunResult) {
	quiet()
	f := families[spec.Family]
	if f == nil {
		panic("unknown family " + spec.Family)
	}
	res = RunResult{Spec: spec, Outcome: "ok", Faults: map[string]int{}, Probes: map[string]int{}, Classes: map[string]int{}}
	res.Spec.Trace = nil
	sc := f.New()
	if err := json.Unmarshal(spec.Scenario, sc); err != nil {
		panic(fmt.Sprintf("bad scenario for %s: %v", spec.Family, err))
	}
	var ms runtime.MemStats
	runtime.GC()
	runtime.ReadMemStats(&ms)
	gc0 := ms.NumGC
	start := time.Now()
	name := fmt.Sprintf("%s-%d", spec.Family, spec.Idx)
	t.Run(name, func(t *testing.T) {
		cryptotest.SetGlobalRandom(t, mix(spec.Seed, mix(famSalt(spec.Family), uint64(spec.Idx))))
		defer func() {
			if r := recover(); r != nil {
				s := fmt.Sprint(r)
				if !strings.Contains(s, "deadlock") && !strings.Contains(s, "blocked") {
					res.Outcome = "harness-error"
					res.Message = "bubble panic: " + s
				}
			}
		}()
		synctest.Test(t, func(t *testing.T) {
			var dec simsync.Decider
			var rp interface{ Remaining() int }
			switch spec.Replay {
			case "strict":
				r := simsync.NewReplay(spec.Trace, true)
				dec, rp = r, r
			case "tolerant":
				r := simsync.NewReplay(spec.Trace, false)
				dec, rp = r, r
			default:
				dec = simsync.NewPolicy(spec.Policy, spec.Seed, mix(famSalt(spec.Family), uint64(spec.Idx)))
			}
			cfg := simsync.Config{Decider: dec, MaxSteps: f.MaxSteps, VirtCap: f.VirtCap}
			if cfg.MaxSteps == 0 {
				cfg.MaxSteps = 200000
				if spec.Tier == "thorough" {
					cfg.MaxSteps = 2000000
				}
			}
			w := simsync.NewWorld(cfg)
			if keepLog && os.Getenv("VERIF_TRACE") != "" {
				w.TraceOut = os.Stderr
			}
			simsync.W = w
			defer func() { simsync.W = nil }()
			c := &Ctx{T: t, W: w, Spec: &spec, res: &res, Known: known, logOn: keepLog}
			c.Net = simnet.New(w)
			c.Rng = rand.New(rand.NewPCG(spec.Seed^0x5eed, mix(famSalt(spec.Family), uint64(spec.Idx))))
			f.Run(c, sc)
			if spec.Replay == "strict" && res.Outcome != "diverged" && rp.Remaining() > 0 {
				res.Outcome = "diverged"
				res.Message = fmt.Sprintf("%d recorded decisions were never reached", rp.Remaining())
			}
			res.Steps, res.Switches, res.NonDef = w.Steps, w.Switches, w.NonDef
			res.VirtMS = w.Elapsed().Milliseconds()
			res.Hash = fmt.Sprintf("%016x", w.Hash)
			res.ILHash = fmt.Sprintf("%016x", w.ILHash)
			for k, v := range c.Net.Fired {
				res.Faults[k] += v
			}
			for _, k := range "TNFA" {
				if w.ClassN[k] > 0 {
					res.Classes[string(k)] = w.ClassN[k]
				}
			}
			if w.Advances > 0 {
				res.Faults["time_advance"] = w.Advances
			}
			res.sitePairs = w.SitePairs
			if res.Outcome == "violation" || keepLog {
				res.Trace = append([]simsync.Decision(nil), w.Trace...)
			}
			w.Stop()
		})
	})
	runtime.ReadMemStats(&ms)
	res.GCs = ms.NumGC - gc0
	res.WallUS = time.Since(start).Microseconds()
	return res
}

// Sleep lets virtual time pass for the calling harness task and then parks it.
// A task that wakes up from a timer or a channel runs outside the scheduler's
// control until it parks; several may wake at the same virtual instant, so
// none of them may touch shared state (random sources, task creation, the
// network) before the scheduler has released it again.
func Sleep(d time.Duration) {
	time.Sleep(d)
	simsync.Yield("h:woke")
}

// Await is a channel receive followed by the same parking rule as Sleep.
func Await(ch <-chan struct{}) {
	<-ch
	simsync.Yield("h:woke")
}

func sortedKeys[V any](m map[string]V) []string {
	ks := make([]string, 0, len(m))
	for k := range m {
		ks = append(ks, k)
	}
	sort.Strings(ks)
	return ks
}
