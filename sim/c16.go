package verifsim

import (
	"encoding/binary"
	"errors"
	"fmt"
	"io"
	"math/rand/v2"
	"net"
	"time"

	"github.com/cbeuw/Cloak/internal/client"
	mux "github.com/cbeuw/Cloak/internal/multiplex"
	"github.com/cbeuw/Cloak/internal/server"
	"github.com/cbeuw/Cloak/internal/server/usermanager"
	"github.com/cbeuw/Cloak/internal/simsync"
	"github.com/cbeuw/Cloak/verifsim/simnet"
)

// ---- C16: usage is charged exactly once; exhausted or expired users are cut off ----
//
// W-srv + real clients (client.MakeSession over the simulated network), a
// proxy upstream that answers with as many bytes as asked, limited users in
// real bbolt, and the real once-a-minute usage uploader on the bubble clock.

type C16Stream struct {
	Up   int `json:"up"`
	Down int `json:"down"`
}

type C16Session struct {
	User    int         `json:"user"`
	NumConn int         `json:"num_conn"`
	Streams []C16Stream `json:"streams"`
	// CloseAtS: the client closes this session at that virtual second (0: never)
	CloseAtS int `json:"close_at_s"`
	// StartAtS: the session is started at that virtual second
	StartAtS int `json:"start_at_s"`
}

type C16Admin struct {
	AtS  int    `json:"at_s"`
	User int    `json:"user"`
	Op   string `json:"op"` // topup | delete | expire
}

type C16Scenario struct {
	Credits  [][2]int64   `json:"credits"` // per user: up, down
	Sessions []C16Session `json:"sessions"`
	Admin    []C16Admin   `json:"admin"`
	// UploadFail: the n-th UploadStatus call returns a database error (0: none)
	UploadFail int    `json:"upload_fail"`
	Method     string `json:"method"`
	Seed       uint64 `json:"seed"`
	Partial    bool   `json:"partial"`
}

func genC16(g *Gen) any {
	sc := &C16Scenario{Seed: g.Rng.Uint64(), Method: []string{"plain", "aes-gcm", "chacha20-poly1305", "aes-128-gcm"}[g.Rng.IntN(4)], Partial: g.Bool(0.3)}
	nu := g.Int(1, 3)
	for u := 0; u < nu; u++ {
		cr := [2]int64{1 << 40, 1 << 40}
		if g.Bool(0.35) {
			// tight credit in one direction: the traffic will exhaust it
			cr[g.Rng.IntN(2)] = int64(g.Pick(1, 1000, 30000))
		}
		sc.Credits = append(sc.Credits, cr)
	}
	ns := g.Int(1, 4)
	for i := 0; i < ns; i++ {
		s := C16Session{User: g.Int(0, nu-1), NumConn: g.Int(1, 3), StartAtS: g.Pick(0, 0, 0, 20, 59, 61, 70)}
		for j := 0; j < g.Int(1, 3); j++ {
			s.Streams = append(s.Streams, C16Stream{Up: g.Pick(0, 1, 40000, 60000, 100000), Down: g.Pick(0, 1, 40000, 60000, 100000)})
		}
		if g.Bool(0.4) {
			s.CloseAtS = s.StartAtS + g.Pick(1, 10, 29, 58, 60, 62, 100)
		}
		sc.Sessions = append(sc.Sessions, s)
	}
	if g.Bool(0.25) {
		sc.Admin = append(sc.Admin, C16Admin{AtS: g.Pick(5, 30, 59, 65, 110), User: g.Int(0, nu-1), Op: []string{"topup", "delete", "expire"}[g.Rng.IntN(3)]})
	}
	if g.Bool(0.1) {
		sc.UploadFail = g.Pick(1, 1, 2, 3)
	}
	return sc
}

// failingManager wraps the real manager; the n-th UploadStatus fails.
type failingManager struct {
	usermanager.UserManager
	failAt int
	calls  int
	Fired  bool
}

func (f *failingManager) UploadStatus(u []usermanager.StatusUpdate) ([]usermanager.StatusResponse, error) {
	f.calls++
	if f.calls == f.failAt {
		f.Fired = true
		return nil, errors.New("injected database error")
	}
	return f.UserManager.UploadStatus(u)
}

// upstream: the proxy server behind Cloak. Protocol of the harness: 8 bytes
// (up, down big-endian), then up bytes are read and down bytes are written.
func upstreamApp(conn net.Conn, upRecv []int64) {
	defer conn.Close()
	hdr := make([]byte, 12)
	if _, err := io.ReadFull(conn, hdr); err != nil {
		return
	}
	up, down, user := int(binary.BigEndian.Uint32(hdr)), int(binary.BigEndian.Uint32(hdr[4:])), int(binary.BigEndian.Uint32(hdr[8:]))
	upRecv[user] += 12
	done := make(chan struct{})
	simsync.Go("h:upstream-w", func() {
		defer close(done)
		buf := make([]byte, 8192)
		for off := 0; off < down; off += len(buf) {
			if _, err := conn.Write(buf[:min(len(buf), down-off)]); err != nil {
				return
			}
		}
	})
	buf := make([]byte, 16384)
	for got := 0; got < up; {
		n, err := conn.Read(buf[:min(len(buf), up-got)])
		got += n
		upRecv[user] += int64(n)
		if err != nil {
			break
		}
	}
	Await(done)
	// keep the stream open until the peer goes away
	io.Copy(io.Discard, conn)
}

type c16Sess struct {
	plan     C16Session
	sesh     *mux.Session
	started  bool
	failed   error
	pending  int
	upDone   int64 // payload bytes the upstream is known to have been sent by the client
	downDone int64
	links    []*simnet.Link
}

func runC16(c *Ctx, scAny any) {
	sc := scAny.(*C16Scenario)
	c.Net.TapOn = true
	c.Net.DefaultPartial = sc.Partial
	w := NewSrvWorld(c, SrvParams{WithDB: true})
	defer w.Cleanup()
	var fm *failingManager
	if sc.UploadFail > 0 {
		fm = &failingManager{UserManager: w.Sta.Panel.Manager, failAt: sc.UploadFail}
		w.Sta.Panel.Manager = fm
	}
	far := time.Now().Add(1000 * time.Hour).Unix()
	uids := make([][]byte, len(sc.Credits))
	for u, cr := range sc.Credits {
		uids[u] = randBytes(c.Rng, 16)
		if err := mkUser(w, uids[u], 10, 1e9, 1e9, cr[0], cr[1], far); err != nil {
			c.Fail("setup", "db", "%v", err)
			return
		}
	}
	upRecv := make([]int64, len(uids)) // bytes the proxy upstream received, per user
	simsync.Go("h:serve", func() { server.Serve(w.Front, w.Sta) })
	simsync.Go("h:upstream", func() {
		for {
			uc, err := w.Upstream["shadowsocks"].Accept()
			if err != nil {
				return
			}
			simsync.Go("h:upstream-conn", func() { upstreamApp(uc, upRecv) })
		}
	})
	simsync.Go("h:target", func() {
		for {
			tc, err := w.Redir.Accept()
			if err != nil {
				return
			}
			tc.Close()
		}
	})
	rng := rand.New(rand.NewPCG(sc.Seed, 16))
	sessions := make([]*c16Sess, len(sc.Sessions))
	linkOwner := map[int]int{} // link id -> user
	for i, sp := range sc.Sessions {
		i, sp := i, sp
		cs := &c16Sess{plan: sp}
		sessions[i] = cs
		simsync.Go("h:client-session", func() {
			if sp.StartAtS > 0 {
				Sleep(time.Duration(sp.StartAtS) * time.Second)
			}
			cp := ClientParams{UID: uids[sp.User], Method: "shadowsocks", Encryption: sc.Method, Browser: "firefox", Transport: "direct", NumConn: sp.NumConn, SessionID: uint32(1000 + i)}
			_, remote, auth, err := w.ClientConfig(cp, rng)
			if err != nil {
				cs.failed = err
				return
			}
			d := &simnet.Dialer{Net: c.Net, LocalIP: fmt.Sprintf("10.0.5.%d", i+1), Tag: fmt.Sprintf("user%d", sp.User)}
			before := len(c.Net.Links())
			cs.sesh = client.MakeSession(remote, auth, d)
			for _, l := range c.Net.Links()[before:] {
				if l.Tag == d.Tag {
					cs.links = append(cs.links, l)
					linkOwner[l.ID] = sp.User
				}
			}
			cs.started = true
			for _, st := range sp.Streams {
				st := st
				cs.pending++
				simsync.Go("h:client-stream", func() {
					defer func() { cs.pending-- }()
					stream, err := cs.sesh.OpenStream()
					if err != nil {
						return
					}
					hdr := make([]byte, 12)
					binary.BigEndian.PutUint32(hdr, uint32(st.Up))
					binary.BigEndian.PutUint32(hdr[4:], uint32(st.Down))
					binary.BigEndian.PutUint32(hdr[8:], uint32(sp.User))
					if _, err := stream.Write(hdr); err != nil {
						return
					}
					cs.upDone += 8
					wdone := make(chan struct{})
					simsync.Go("h:client-stream-w", func() {
						defer close(wdone)
						buf := make([]byte, 8192)
						for off := 0; off < st.Up; off += len(buf) {
							k := min(len(buf), st.Up-off)
							if _, err := stream.Write(buf[:k]); err != nil {
								return
							}
							cs.upDone += int64(k)
						}
					})
					buf := make([]byte, 16384)
					got := 0
					for got < st.Down {
						n, err := stream.Read(buf)
						got += n
						cs.downDone += int64(n)
						if err != nil {
							break
						}
					}
					Await(wdone)
				})
			}
			if sp.CloseAtS > 0 {
				Sleep(time.Duration(sp.CloseAtS-sp.StartAtS) * time.Second)
				cs.sesh.Close()
			}
		})
	}
	adminDone := map[int]string{}
	for _, a := range sc.Admin {
		a := a
		simsync.Go("h:admin", func() {
			Sleep(time.Duration(a.AtS) * time.Second)
			switch a.Op {
			case "topup":
				w.Mgr.WriteUserInfo(usermanager.UserInfo{UID: uids[a.User], UpCredit: usermanager.JustInt64(1 << 41), DownCredit: usermanager.JustInt64(1 << 41)})
			case "delete":
				w.Mgr.DeleteUser(uids[a.User])
			case "expire":
				w.Mgr.WriteUserInfo(usermanager.UserInfo{UID: uids[a.User], ExpiryTime: usermanager.JustInt64(time.Now().Unix() - 10)})
			}
			adminDone[a.User] = a.Op
		})
	}
	// run for a fixed virtual duration: all traffic happens in the first ~110
	// seconds, then at least two upload rounds follow
	const horizon = 200 * time.Second
	finished := false
	simsync.Go("h:horizon", func() { Sleep(horizon); finished = true })
	// cut-off oracle: at every quiescent moment, a user whose stored credit is
	// exhausted / who is expired / deleted, as of an upload that has completed,
	// has no live session left
	type cut struct {
		since time.Duration
	}
	cutoff := map[int]*cut{}
	lastInfo := map[int]string{}
	var failSeen time.Duration
	var liveAtFail []int
	c.W.OnIdle = func() string {
		now := c.W.Elapsed()
		// one failed upload must not be the last one: while a limited user's session
		// stays up, the rounds that follow reach the manager again (C17: a live
		// session's usage is reported and it can be terminated)
		if fm != nil && fm.Fired {
			if failSeen == 0 {
				failSeen = now
				for i, cs := range sessions {
					if cs.started && !cs.sesh.IsClosed() {
						liveAtFail = append(liveAtFail, i)
					}
				}
			} else if now-failSeen > 115*time.Second && fm.calls == fm.failAt { // (two more rounds have had their turn)
				for _, i := range liveAtFail {
					if !sessions[i].sesh.IsClosed() {
						return fmt.Sprintf("uploads-stopped|the usage upload at %v failed (injected database error); %v later session %d is still up but no further upload has reached the user manager", failSeen, now-failSeen, i)
					}
				}
			}
		}
		for u := range uids {
			info, err := w.Mgr.GetUserInfo(uids[u])
			gone := err != nil
			if !gone {
				if s := fmt.Sprintf("user %d stored credit up=%d down=%d", u, sc.Credits[u][0]-*info.UpCredit, sc.Credits[u][1]-*info.DownCredit); s != lastInfo[u] {
					lastInfo[u] = s
					c.Logf("%s (charged so far); proxy received %d", s, upRecv[u])
				}
			}
			exhausted := !gone && (*info.UpCredit <= 0 || *info.DownCredit <= 0)
			expired := !gone && *info.ExpiryTime < time.Now().Unix()
			if !(gone || exhausted || expired) {
				delete(cutoff, u)
				continue
			}
			if cutoff[u] == nil {
				cutoff[u] = &cut{since: now}
			}
			// the verdict is acted upon by the upload round that sees it: allow two
			// rounds (a top-up or the deletion itself may fall between rounds)
			if now-cutoff[u].since < 125*time.Second {
				continue
			}
			for i, cs := range sessions {
				if cs.plan.User == u && cs.started && !cs.sesh.IsClosed() {
					return fmt.Sprintf("not-cut-off|user %d (deleted=%v exhausted=%v expired=%v since %v) still has a live session (%d) at %v, two usage uploads later", u, gone, exhausted, expired, cutoff[u].since, i, now)
				}
			}
		}
		return ""
	}
	end := c.Drive(func() bool { return finished })
	if c.Failed() || end != simsync.EndDone {
		return
	}
	// conservation
	for u, cr := range sc.Credits {
		if op, ok := adminDone[u]; ok && (op == "topup" || op == "delete") {
			continue // stored credit was overwritten or is gone: nothing to compare with
		}
		info, err := w.Mgr.GetUserInfo(uids[u])
		if err != nil {
			continue
		}
		var payUp, payDown, wireUp, wireDown int64
		active := false
		for _, cs := range sessions {
			if cs.plan.User != u {
				continue
			}
			payDown += cs.downDone
			if cs.started && !cs.sesh.IsClosed() {
				active = true
			}
			for _, l := range cs.links {
				wireUp += l.Dir[0].Written
				wireDown += l.Dir[1].Written
			}
		}
		payUp = upRecv[u] // what the server handed to the proxy upstream was certainly metered
		chargedUp, chargedDown := cr[0]-*info.UpCredit, cr[1]-*info.DownCredit
		faulty := fm != nil && fm.Fired
		check := func(dir string, payload, charged, wire int64) bool {
			if charged > wire {
				c.Fail("usage", "overcharged:"+dir, "user %d %s: %d bytes deducted from the stored credit but only %d bytes crossed this user's connections (payload %d): charged more than once or for someone else's traffic", u, dir, charged, wire, payload)
				return false
			}
			if charged < 0 {
				c.Fail("usage", "credited:"+dir, "user %d %s: stored credit grew by %d", u, dir, -charged)
				return false
			}
			if !faulty && charged < payload {
				c.Fail("usage", "undercharged:"+dir, "user %d %s: %d payload bytes were carried (wire %d) but only %d were deducted after traffic stopped and two upload rounds completed (user still active: %v)", u, dir, payload, wire, charged, active)
				return false
			}
			return true
		}
		if !check("upload", payUp, chargedUp, wireUp) || !check("download", payDown, chargedDown, wireDown) {
			return
		}
		if payUp+payDown > 0 {
			c.Probe("conservation_checked")
		}
	}
	if fm != nil && fm.Fired {
		c.Probe("db_error_fired")
	}
}

func init() {
	register(&Family{Name: "c16-usage", Count: func(tier string) int { return map[string]int{"quick": 500, "thorough": 20000}[tier] },
		Gen: genC16, New: func() any { return &C16Scenario{} }, Run: runC16, VirtCap: 10 * time.Minute, MaxSteps: 1500000,
		Policy: func(g *Gen) simsync.PolicyConfig {
			p := SwarmPolicy(g)
			// virtual time passes only when nothing can run: all traffic then happens
			// at the instant it is started and the conservation oracle can rely on
			// two complete upload rounds after it (overlapping rounds are C17's business)
			p.Stall = 0
			return p
		}})
	plans["C16"] = []string{"c16-usage", "c16-overlap"}
	// c16-usage under C07: "a UID the server currently authorises" - a user deleted
	// or expired (or out of credit) whose session is still up two usage uploads
	// later is a user whose further connections (same UID and session id) are
	// still answered as Cloak: GetSession hands out the standing session without
	// asking the manager again. The periodic upload is the only re-authorisation.
	plans["C07"] = append(plans["C07"], "c16-usage")
}
