package verifsim

import (
	"bufio"
	"encoding/json"
	"fmt"
	"os"
	"runtime"
	"testing"
	"time"

	"github.com/cbeuw/Cloak/internal/simsync"
)

// Job is what /verif/bin/verif hands to a worker process (VERIF_JOB=<file>).
type Job struct {
	Mode     string   `json:"mode"` // batch | replay | minimize | plan
	Prop     string   `json:"property"`
	Tier     string   `json:"tier"`
	Seed     uint64   `json:"seed"`
	Worker   int      `json:"worker"`
	NWorkers int      `json:"nworkers"`
	Start    int      `json:"start"`    // first global index for this worker invocation (already strided)
	MaxRuns  int      `json:"max_runs"` // stop after this many runs (process recycling)
	Deadline int64    `json:"deadline_unix_ms"`
	Known    []string `json:"known"`
	Out      string   `json:"out"`
	Spec     *RunSpec `json:"spec,omitempty"`
	Scale    float64  `json:"scale,omitempty"` // multiplies sampled family counts
}

type planEntry struct {
	Family     string `json:"family"`
	Count      int    `json:"count"`
	Enumerated bool   `json:"enumerated"`
}

// BatchSummary is the last line a batch worker writes.
type BatchSummary struct {
	Summary      bool              `json:"summary"`
	Worker       int               `json:"worker"`
	Next         int               `json:"next"` // next global index to run, -1 when the plan is finished
	Runs         int               `json:"runs"`
	PerFamily    map[string]int    `json:"per_family"`
	Steps        int64             `json:"steps"`
	VirtMS       int64             `json:"virt_ms"`
	Faults       map[string]int    `json:"faults"`
	Probes       map[string]int    `json:"probes"`
	Policies     map[string]int    `json:"policies"`
	Outcomes     map[string]int    `json:"outcomes"`
	KnownHits    map[string]int    `json:"known_hits"`
	ILHashes     []string          `json:"il_hashes"` // of non-trivial runs
	SitePairs    []string          `json:"site_pairs"`
	Samples      []json.RawMessage `json:"samples"`
	ReplayUnsafe int               `json:"replay_unsafe"`
	WallMS       int64             `json:"wall_ms"`
}

func planFor(prop, tier string, scale float64) []planEntry {
	var out []planEntry
	for _, fn := range plans[prop] {
		if only := os.Getenv("VERIF_ONLY_FAMILY"); only != "" && only != fn {
			continue // debugging aid: run one family of the plan only
		}
		f := families[fn]
		n := f.Count(tier)
		if !f.Enumerated && scale > 0 {
			n = int(float64(n) * scale)
			if n < 1 {
				n = 1
			}
		}
		out = append(out, planEntry{Family: fn, Count: n, Enumerated: f.Enumerated})
	}
	return out
}

// locate maps a global case number to (family, index within the family). The
// families of a plan are interleaved in proportion to their sizes (case i of a
// family of n sits at position (i+0.5)/n of the whole), so that a run cut
// short by its time budget has covered every family to the same fraction
// instead of only the first ones.
func locate(plan []planEntry, gidx int) (*Family, int) {
	key := ""
	total := 0
	for _, p := range plan {
		key += fmt.Sprintf("%s:%d;", p.Family, p.Count)
		total += p.Count
	}
	if gidx < 0 || gidx >= total {
		return nil, 0
	}
	ord := interleaved[key]
	if ord == nil {
		ord = make([]planPos, 0, total)
		next := make([]int, len(plan))
		for len(ord) < total {
			best, bi := 2.0, -1
			for fi, p := range plan {
				if next[fi] < p.Count {
					if k := (float64(next[fi]) + 0.5) / float64(p.Count); k < best {
						best, bi = k, fi
					}
				}
			}
			ord = append(ord, planPos{uint8(bi), int32(next[bi])})
			next[bi]++
		}
		interleaved[key] = ord
	}
	pp := ord[gidx]
	return families[plan[pp.fam].Family], int(pp.idx)
}

type planPos struct {
	fam uint8
	idx int32
}

var interleaved = map[string][]planPos{}

func TestWorker(t *testing.T) {
	jf := os.Getenv("VERIF_JOB")
	if jf == "" {
		t.Skip("VERIF_JOB not set")
	}
	runtime.GOMAXPROCS(1)
	b, err := os.ReadFile(jf)
	if err != nil {
		t.Fatal(err)
	}
	var job Job
	if err := json.Unmarshal(b, &job); err != nil {
		t.Fatal(err)
	}
	out, err := os.Create(job.Out)
	if err != nil {
		t.Fatal(err)
	}
	defer out.Close()
	bw := bufio.NewWriter(out)
	defer bw.Flush()
	enc := json.NewEncoder(bw)
	known := map[string]bool{}
	for _, k := range job.Known {
		known[k] = true
	}
	switch job.Mode {
	case "plan":
		enc.Encode(planFor(job.Prop, job.Tier, job.Scale))
	case "batch":
		runBatch(t, &job, known, enc)
	case "replay":
		res := Execute(t, *job.Spec, known, true)
		enc.Encode(res)
	case "minimize":
		minimize(t, &job, known, enc)
	case "one":
		// debugging aid: run case number Start of the plan with its log kept
		f, idx := locate(planFor(job.Prop, job.Tier, job.Scale), job.Start)
		res := Execute(t, MakeSpec(job.Prop, f, job.Tier, job.Seed, idx), known, true)
		enc.Encode(res)
	case "hashes":
		// determinism selftest: event hash, step count and outcome per case
		plan := planFor(job.Prop, job.Tier, job.Scale)
		total := 0
		for _, p := range plan {
			total += p.Count
		}
		// spread the sample over all families
		for k := 0; k < job.MaxRuns; k++ {
			gidx := k * total / job.MaxRuns
			f, idx := locate(plan, gidx)
			spec := MakeSpec(job.Prop, f, job.Tier, job.Seed, idx)
			res := Execute(t, spec, known, false)
			enc.Encode(map[string]string{"Case": fmt.Sprintf("%s/%d", f.Name, idx), "Hash": fmt.Sprintf("%s/%s/%d/%s/%s", res.Hash, res.ILHash, res.Steps, res.Outcome, res.Signature)})
		}
	default:
		t.Fatalf("unknown mode %q", job.Mode)
	}
}

func runBatch(t *testing.T, job *Job, known map[string]bool, enc *json.Encoder) {
	plan := planFor(job.Prop, job.Tier, job.Scale)
	total := 0
	for _, p := range plan {
		total += p.Count
	}
	sum := BatchSummary{Summary: true, Worker: job.Worker, PerFamily: map[string]int{}, Faults: map[string]int{}, Probes: map[string]int{},
		Policies: map[string]int{}, Outcomes: map[string]int{}, KnownHits: map[string]int{}}
	pairs := map[string]struct{}{}
	start := time.Now()
	gidx := job.Start
	for ; gidx < total; gidx += job.NWorkers {
		if sum.Runs >= job.MaxRuns || (job.Deadline > 0 && time.Now().UnixMilli() > job.Deadline) {
			break
		}
		f, idx := locate(plan, gidx)
		spec := MakeSpec(job.Prop, f, job.Tier, job.Seed, idx)
		res := Execute(t, spec, known, false)
		sum.Runs++
		sum.PerFamily[f.Name]++
		sum.Steps += int64(res.Steps)
		sum.VirtMS += res.VirtMS
		for k, v := range res.Faults {
			sum.Faults[k] += v
		}
		for k, v := range res.Probes {
			sum.Probes[k] += v
		}
		sum.Policies[spec.Policy.Kind]++
		if res.GCs > 0 {
			sum.ReplayUnsafe++
		}
		for p := range res.sitePairs {
			pairs[p] = struct{}{}
		}
		nontrivial := res.NonDef > 0
		for k, v := range res.Faults {
			if k != "time_advance" && v > 0 {
				nontrivial = true
			}
		}
		if len(res.Probes) > 0 {
			nontrivial = true // a named rare-event probe was hit (operation-sequence families have no scheduling decisions)
		}
		if nontrivial || f.Enumerated {
			sum.ILHashes = append(sum.ILHashes, res.ILHash+caseHash(spec))
		}
		if res.Outcome == "violation" && known[res.Signature] {
			sum.KnownHits[res.Signature]++
			res.Outcome = "known"
		}
		sum.Outcomes[res.Outcome]++
		if len(sum.Samples) < 3 {
			s, _ := json.Marshal(map[string]any{"family": spec.Family, "idx": spec.Idx, "scenario": spec.Scenario, "policy": spec.Policy,
				"steps": res.Steps, "virt_ms": res.VirtMS, "outcome": res.Outcome, "faults": res.Faults, "nondefault_decisions": res.NonDef})
			sum.Samples = append(sum.Samples, s)
		}
		if res.Outcome == "violation" || res.Outcome == "harness-error" || res.Outcome == "diverged" {
			res.Spec.Trace = nil
			enc.Encode(res)
			if res.Outcome == "violation" {
				gidx += job.NWorkers
				break // the driver minimises the first violation; no point in going on
			}
		}
	}
	if gidx >= total {
		sum.Next = -1
	} else {
		sum.Next = gidx
	}
	for p := range pairs {
		sum.SitePairs = append(sum.SitePairs, p)
	}
	sum.WallMS = time.Since(start).Milliseconds()
	enc.Encode(sum)
}

func caseHash(s RunSpec) string {
	return fmt.Sprintf("/%016x", mix(famSalt(s.Family), famSalt(string(s.Scenario))))
}

// minimize shrinks the decision trace of a failing run (ddmin over the
// non-default decisions, tolerant replay), then emits the strict replay spec
// of the smallest failing run found, verified once more.
func minimize(t *testing.T, job *Job, known map[string]bool, enc *json.Encoder) {
	spec := *job.Spec
	first := Execute(t, spec, known, false)
	if first.Outcome != "violation" {
		enc.Encode(map[string]any{"error": "the run does not fail when re-executed", "result": first})
		return
	}
	sig := first.Signature
	best := first
	bestTrace := first.Trace
	deadline := time.Now().Add(120 * time.Second)
	try := func(tr []simsync.Decision) (RunResult, bool) {
		s := spec
		s.Replay = "tolerant"
		s.Trace = tr
		r := Execute(t, s, known, false)
		return r, r.Outcome == "violation" && r.Signature == sig
	}
	// the trace actually taken by a tolerant replay is what counts: use r.Trace
	n := 2
	cur := bestTrace
	for len(cur) > 0 && time.Now().Before(deadline) {
		chunk := (len(cur) + n - 1) / n
		reduced := false
		for i := 0; i < len(cur) && time.Now().Before(deadline); i += chunk {
			end := i + chunk
			if end > len(cur) {
				end = len(cur)
			}
			cand := append(append([]simsync.Decision(nil), cur[:i]...), cur[end:]...)
			if r, ok := try(cand); ok && len(r.Trace) < len(cur) {
				cur = r.Trace
				best = r
				n = max(n-1, 2)
				reduced = true
				break
			}
		}
		if !reduced {
			if chunk <= 1 {
				break
			}
			n = min(n*2, len(cur))
		}
	}
	final := spec
	final.Replay = "strict"
	final.Trace = cur
	v := Execute(t, final, known, true)
	ok := v.Outcome == "violation" && v.Signature == sig
	if !ok {
		// fall back to the unminimised trace
		final.Trace = bestTrace
		v = Execute(t, final, known, true)
		ok = v.Outcome == "violation" && v.Signature == sig
	}
	_ = best
	enc.Encode(map[string]any{"spec": final, "result": v, "verified": ok, "original_decisions": len(bestTrace), "minimized_decisions": len(final.Trace)})
}
