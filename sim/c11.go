package verifsim

import (
	"encoding/binary"
	"fmt"
	"io"

	"github.com/cbeuw/Cloak/internal/common"
	mux "github.com/cbeuw/Cloak/internal/multiplex"
	"github.com/cbeuw/Cloak/internal/simsync"
)

// ---- C11: forged or modified frames are dropped; garbage never breaks a session ----
//
// World: a client session primes one stream on the server session (six
// frames, so that the next frame is unpadded), then goes quiet. An extra
// connection of the server session is owned by the injector. At quiescent
// moments the injector sends a record, waits for quiescence again and
// compares the digest of the server session's logical state.

type C11Scenario struct {
	Method byte `json:"method"`
	// Kind of the genuine base message: 0 next-in-order data frame, 1 future data
	// frame (parked), 2 closing frame next in order, 3 first frame of a new
	// stream, 4 session-closing frame
	Kind    int `json:"kind"`
	Payload int `json:"payload"`
	Pad     int `json:"pad"`
	// Mod describes the modification
	Mod  string `json:"mod"` // flip | truncate | extend | edit | rekey | remethod | garbage
	Bit  int    `json:"bit,omitempty"`
	Len  int    `json:"len,omitempty"`
	Seed uint64 `json:"seed"`
	// Repeat: that many unacceptable messages in a row on the connection (fresh
	// bytes each time for garbage) before the genuine one
	Repeat int `json:"repeat,omitempty"`
}

var c11Payloads = []int{1, 16, 100}

func c11MsgLen(method byte, payload, pad int) int {
	tag := 16
	if method == 0 {
		tag = 8
	}
	return 14 + payload + pad + tag
}

func c11FlipCount(string) int {
	t := 0
	for range 3 { // AEAD methods
		for kind := 0; kind < 5; kind++ {
			for _, p := range c11Payloads {
				_ = kind
				t += c11MsgLen(1, p, 0) * 8
			}
		}
	}
	return t
}

func genC11Flip(g *Gen) any {
	i := g.Idx
	for m := 1; m <= 3; m++ {
		for kind := 0; kind < 5; kind++ {
			for _, p := range c11Payloads {
				n := c11MsgLen(byte(m), p, 0) * 8
				if i < n {
					return &C11Scenario{Method: byte(m), Kind: kind, Payload: p, Mod: "flip", Bit: i, Seed: g.Rng.Uint64()}
				}
				i -= n
			}
		}
	}
	panic("index")
}

func genC11Random(g *Gen) any {
	sc := &C11Scenario{Method: byte(g.Int(0, 3)), Kind: g.Int(0, 4), Seed: g.Rng.Uint64()}
	sc.Payload = g.Pick(1, 2, 16, 100, 1000, 16000, g.Int(1, 16000))
	if g.Bool(0.5) {
		sc.Pad = g.Int(0, 239)
		if sc.Method == 0 {
			sc.Pad = g.Int(0, 247)
		}
	}
	sc.Mod = []string{"flip", "flip", "truncate", "extend", "edit", "rekey", "remethod", "garbage", "garbage"}[g.Rng.IntN(9)]
	n := c11MsgLen(sc.Method, sc.Payload, sc.Pad)
	switch sc.Mod {
	case "flip":
		sc.Bit = g.Rng.IntN(n * 8)
		if g.Bool(0.4) { // bias to header and tag
			if g.Bool(0.5) {
				sc.Bit = g.Rng.IntN(14 * 8)
			} else {
				sc.Bit = (n-16)*8 + g.Rng.IntN(16*8)
			}
		}
	case "truncate":
		sc.Len = g.Rng.IntN(n)
	case "extend":
		sc.Len = g.Int(1, 300)
	case "edit":
		sc.Len = g.Int(2, 12)
	case "garbage":
		sc.Len = g.Pick(0, 1, 13, 14, 21, 22, 23, 37, 38, 100, 1000, 16401, 20480, g.Int(0, 20480))
	}
	if g.Bool(0.3) {
		sc.Repeat = g.Pick(2, 3, 8, 9, 10, 16, 40, 100)
	}
	return sc
}

func c11PosClass(pos, n int, method byte) string {
	tag := 16
	if method == 0 {
		tag = 8
	}
	switch {
	case pos < 4:
		return "hdr.streamid"
	case pos < 12:
		return "hdr.seq"
	case pos == 12:
		return "hdr[12]"
	case pos == 13:
		return "hdr[13]"
	case pos >= n-tag:
		return "tag"
	default:
		return "body"
	}
}

func record(msg []byte) []byte {
	rec := make([]byte, 5+len(msg))
	rec[0], rec[1], rec[2] = 23, 3, 3
	binary.BigEndian.PutUint16(rec[3:], uint16(len(msg)))
	copy(rec[5:], msg)
	return rec
}

func runC11(c *Ctx, scAny any) {
	sc := scAny.(*C11Scenario)
	sw := NewSessWorld(c, SessParams{Method: sc.Method, NConn: 1, InactS: 3600}, nil, nil)
	inj, injS := c.Net.Pipe("inject")
	sw.S.AddConnection(common.NewTLSConn(injS))
	rng := c.Rng
	const prime = 6
	var sid uint32
	primed := false
	var sstream io.Reader
	simsync.Go("h:client", func() {
		st, err := sw.C.OpenStream()
		if err != nil {
			c.Fail("setup", "error:open", "%v", err)
			return
		}
		sid = st.VerifID()
		for i := 0; i < prime; i++ {
			if _, err := st.Write([]byte{byte(i), 0xAA, 0xBB}); err != nil {
				c.Fail("setup", "error:write", "%v", err)
				return
			}
		}
	})
	simsync.Go("h:server", func() {
		conn, err := sw.S.Accept()
		if err != nil {
			return
		}
		sstream = conn
		b := make([]byte, 3*prime)
		if _, err := io.ReadFull(conn, b); err != nil {
			c.Fail("setup", "error:read", "%v", err)
			return
		}
		primed = true
	})
	ref, _ := NewRefCodec(sc.Method, sw.Key)
	digest := func() string {
		s, dead, cnt, closed := sw.S.VerifDigest()
		return fmt.Sprintf("%+v dead=%v count=%d closed=%v", s, dead, cnt, closed)
	}
	// the genuine base message
	base := RefFrame{StreamID: 0, Seq: prime, PadLen: sc.Pad, Payload: make([]byte, sc.Payload)}
	fillPat(base.Payload, sc.Seed, 11, 0, 0)
	phase := 0
	var d0 string
	var n int
	var forged []byte
	modDesc := sc.Mod
	editCls := "edit"
	finished := false
	step := func() string {
		if !primed && phase == 0 {
			return ""
		}
		switch phase {
		case 0:
			base.StreamID = sid
			switch sc.Kind {
			case 1:
				base.Seq = prime + 3
			case 2:
				base.Closing = 1
			case 3:
				base.StreamID, base.Seq = sid+77, 0
			case 4:
				base.StreamID, base.Seq, base.Closing = 0xffffffff, 0, 2
			}
			rnd := make([]byte, base.PadLen+8)
			for i := range rnd {
				rnd[i] = byte(rng.Uint32())
			}
			msg := ref.Encode(base, rnd)
			n = len(msg)
			forged = append([]byte(nil), msg...)
			switch sc.Mod {
			case "flip":
				b := sc.Bit % (n * 8)
				forged[b/8] ^= 1 << (b % 8)
				modDesc = fmt.Sprintf("bit %d of byte %d (%s) flipped", b%8, b/8, c11PosClass(b/8, n, sc.Method))
			case "truncate":
				forged = forged[:sc.Len%n]
				modDesc = fmt.Sprintf("truncated to %d of %d bytes", len(forged), n)
			case "extend":
				for i := 0; i < sc.Len; i++ {
					forged = append(forged, byte(rng.Uint32()))
				}
				modDesc = fmt.Sprintf("extended by %d bytes", sc.Len)
			case "edit":
				for i := 0; i < sc.Len; i++ {
					forged[rng.IntN(n)] ^= byte(1 + rng.IntN(255))
				}
				// which bytes ended up different (edits may hit one byte twice)
				var diff []int
				for i := range msg {
					if forged[i] != msg[i] {
						diff = append(diff, i)
					}
				}
				editCls = "edit"
				if len(diff) > 0 && diff[len(diff)-1] <= 13 && diff[0] >= 12 {
					// confined to the two header bytes outside the authenticated data:
					// the same input class as a bit flip there
					editCls = fmt.Sprintf("flip@hdr[%d]", diff[0])
				}
				modDesc = fmt.Sprintf("%d random byte edits, bytes %v differ", sc.Len, diff)
			case "rekey":
				k2 := sw.Key
				k2[rng.IntN(32)] ^= 1 << rng.IntN(8)
				r2, _ := NewRefCodec(sc.Method, k2)
				forged = r2.Encode(base, rnd)
				modDesc = "sealed under another key"
			case "remethod":
				m2 := byte((int(sc.Method) + 1 + rng.IntN(3)) % 4)
				r2, _ := NewRefCodec(m2, sw.Key)
				forged = r2.Encode(base, rnd)
				modDesc = fmt.Sprintf("sealed with method %d instead of %d", m2, sc.Method)
			case "garbage":
				forged = make([]byte, sc.Len)
				for i := range forged {
					forged[i] = byte(rng.Uint32())
				}
				modDesc = fmt.Sprintf("%d arbitrary bytes", sc.Len)
			}
			d0 = digest()
			for k := 0; k < max(1, sc.Repeat); k++ {
				if k > 0 && sc.Mod == "garbage" {
					for i := range forged {
						forged[i] = byte(rng.Uint32())
					}
				}
				if _, err := inj.Write(record(forged)); err != nil {
					return "setup|inject: " + err.Error()
				}
			}
			if sc.Repeat > 1 {
				modDesc = fmt.Sprintf("%s, %d such messages in a row", modDesc, sc.Repeat)
			}
			phase = 1
			c.Probe("injected:" + sc.Mod)
		case 1:
			d1 := digest()
			if sc.Method != 0 && d1 != d0 {
				cls := sc.Mod
				if sc.Mod == "edit" {
					cls = editCls
				}
				if sc.Mod == "flip" {
					b := sc.Bit % (n * 8)
					cls = "flip@" + c11PosClass(b/8, n, sc.Method)
				}
				return fmt.Sprintf("accepted:%s|a modified message was processed (method %d, base kind %d, %s): receiving state changed\n before: %s\n after:  %s", cls, sc.Method, sc.Kind, modDesc, d0, d1)
			}
			if sc.Method == 0 && sw.S.IsClosed() {
				// plain: no authenticity; a garbage message may legitimately say "close the session"
				finished = true
				return ""
			}
			// later valid frames are still processed
			d0 = d1
			rnd := make([]byte, base.PadLen+8)
			for i := range rnd {
				rnd[i] = byte(rng.Uint32())
			}
			if _, err := inj.Write(record(ref.Encode(base, rnd))); err != nil {
				return "setup|inject: " + err.Error()
			}
			phase = 2
		case 2:
			d2 := digest()
			if sc.Method != 0 && d2 == d0 {
				return fmt.Sprintf("valid-frame-ignored|after %s the genuine message (kind %d) was not processed any more: state %s", modDesc, sc.Kind, d2)
			}
			finished = true
			phase = 3
		}
		return ""
	}
	c.W.OnIdle = step
	c.Drive(func() bool { return finished })
	_ = sstream
	_ = mux.ErrBrokenStream
}

func init() {
	pol := func(g *Gen) simsync.PolicyConfig {
		p := SwarmPolicy(g)
		p.Stall = 0
		return p
	}
	newSc := func() any { return &C11Scenario{} }
	register(&Family{Name: "c11-bitflips", Enumerated: true, Count: c11FlipCount, Gen: genC11Flip, New: newSc, Run: runC11, Policy: pol})
	register(&Family{Name: "c11-garbage", Count: func(tier string) int { return map[string]int{"quick": 6000, "thorough": 300000}[tier] },
		Gen: genC11Random, New: newSc, Run: runC11, Policy: pol})
	plans["C11"] = []string{"c11-bitflips", "c11-garbage"}
}
