package verifsim

import (
	"fmt"
	"io"
	"math/rand/v2"
	"net"
	"strings"
	"time"

	"github.com/cbeuw/Cloak/internal/server"
	"github.com/cbeuw/Cloak/internal/server/usermanager"
	"github.com/cbeuw/Cloak/internal/simsync"
	"github.com/cbeuw/Cloak/verifsim/simnet"
)

// ---- C15: connections join the right session; the per-user session cap holds ----

type C15User struct {
	Cap        int   `json:"cap"`
	UpCredit   int64 `json:"up_credit"`
	DownCredit int64 `json:"down_credit"`
	ExpiryS    int64 `json:"expiry_s"` // seconds relative to the server clock at start (negative: already expired)
	Pinned     bool  `json:"pinned"`   // one session is established first and stays for the whole run
	// AdminZero: once the pinned session stands, the administrator sets the
	// user's upload (1) or download (2) credit to zero through the manager; the
	// user stays active until the next upload, but must not start a new session
	AdminZero int `json:"admin_zero,omitempty"`
}

type C15Client struct {
	User    int    `json:"user"`
	Session uint32 `json:"session"`
	Browser string `json:"browser"`
	// LostReply: the connection is reset the moment the server has read the whole
	// hello, so the server's reply cannot be written; the client then connects
	// again with the same session id
	LostReply bool `json:"lost_reply,omitempty"`
	// CDN: the client uses the WebSocket transport through the CDN edge
	CDN bool `json:"cdn,omitempty"`
	// Join: Session is the id of its user's pinned session: one more connection
	// for a session that exists - or existed, if the user lost its authorisation
	// and a periodic upload (once a minute) has terminated it since
	Join bool `json:"join,omitempty"`
}

type C15Scenario struct {
	Users     []C15User   `json:"users"`
	Clients   []C15Client `json:"clients"`
	SrvSkewMS int64       `json:"srv_skew_ms"`
	// BurstDelayS: virtual seconds between the pinned sessions and the burst (an
	// active user's expiry may pass in between)
	BurstDelayS int    `json:"burst_delay_s"`
	Partial     bool   `json:"partial"`
	Seed        uint64 `json:"seed"`
}

func genC15(g *Gen) any {
	sc := &C15Scenario{Seed: g.Rng.Uint64(), Partial: g.Bool(0.3), SrvSkewMS: int64(g.Pick(0, 0, 7200000, -7200000))}
	sc.BurstDelayS = g.Pick(0, 0, 10, 40, 100)
	nu := g.Int(1, 3)
	for u := 0; u < nu; u++ {
		usr := C15User{Cap: g.Int(0, 4), UpCredit: 1e9, DownCredit: 1e9, ExpiryS: 86400, Pinned: g.Bool(0.5)}
		switch g.Int(0, 7) {
		case 0:
			usr.UpCredit = int64(g.Pick(0, -1, -1000))
		case 1:
			usr.DownCredit = int64(g.Pick(0, -1))
		case 2:
			usr.ExpiryS = int64(g.Pick(-1, -3600, -86400))
		case 3:
			usr.ExpiryS = int64(g.Pick(5, 30, 50))
		}
		if usr.Pinned && usr.UpCredit > 0 && usr.DownCredit > 0 && usr.ExpiryS > 1000 && g.Bool(0.3) {
			usr.AdminZero = g.Int(1, 2)
		}
		sc.Users = append(sc.Users, usr)
	}
	npairs := g.Int(1, 4)
	type pair struct {
		u int
		s uint32
	}
	var pairs []pair
	for i := 0; i < npairs; i++ {
		pairs = append(pairs, pair{g.Int(0, nu-1), uint32(g.Pick(1, 2, 3, 0x7fffffff, 0xffffffff))})
	}
	n := g.Int(2, 24)
	for i := 0; i < n; i++ {
		p := pairs[g.Rng.IntN(len(pairs))]
		sc.Clients = append(sc.Clients, C15Client{User: p.u, Session: p.s, Browser: []string{"chrome", "firefox", "safari"}[g.Rng.IntN(3)]})
	}
	if g.Bool(0.35) {
		for k := g.Int(1, 2); k > 0; k-- {
			sc.Clients[g.Rng.IntN(min(n, 4))].LostReply = true
		}
	}
	if g.Bool(0.3) {
		// some or all of the burst arrives over the WebSocket transport
		for i := range sc.Clients {
			if g.Bool(0.7) {
				sc.Clients[i].CDN, sc.Clients[i].LostReply = true, false
			}
		}
	}
	return sc
}

type c15Result struct {
	done bool
	key  [32]byte
	err  error
	conn net.Conn
}

func runC15(c *Ctx, scAny any) {
	sc := scAny.(*C15Scenario)
	c.Net.DefaultPartial = sc.Partial
	w := NewSrvWorld(c, SrvParams{WithDB: true, SkewMS: sc.SrvSkewMS})
	defer w.Cleanup()
	srvNow := w.Sta.WorldState.Now()
	uids := make([][]byte, len(sc.Users))
	for u, usr := range sc.Users {
		uids[u] = randBytes(c.Rng, 16)
		if err := mkUser(w, uids[u], int32(usr.Cap), 1e8, 1e8, usr.UpCredit, usr.DownCredit, srvNow.Unix()+usr.ExpiryS); err != nil {
			c.Fail("setup", "db", "%v", err)
			return
		}
	}
	simsync.Go("h:serve", func() { server.Serve(w.Front, w.Sta) })
	for _, cl := range sc.Clients {
		if cl.CDN {
			NewEdgeStub(c)
			break
		}
	}
	simsync.Go("h:upstream", func() {
		for {
			uc, err := w.Upstream["shadowsocks"].Accept()
			if err != nil {
				return
			}
			simsync.Go("h:echo", func() { io.Copy(uc, uc) })
		}
	})
	redirected := 0
	simsync.Go("h:target", func() {
		for {
			tc, err := w.Redir.Accept()
			if err != nil {
				return
			}
			redirected++
			simsync.Go("h:target-conn", func() {
				// a web server that waits for a request it understands, then gives up
				tc.SetReadDeadline(time.Now().Add(3 * time.Second))
				io.Copy(io.Discard, tc)
				tc.Close()
			})
		}
	})
	rng := rand.New(rand.NewPCG(sc.Seed, 15))
	var handshake func(user int, sid uint32, browser string, ip string, res *c15Result, lostReply bool)
	handshake = func(user int, sid uint32, browser string, ip string, res *c15Result, lostReply bool) {
		if !lostReply {
			defer func() { res.done = true }()
		}
		cp := ClientParams{UID: uids[user], Method: "shadowsocks", Encryption: "aes-gcm", Browser: browser, Transport: "direct", NumConn: 1, SessionID: sid, SkewMS: sc.SrvSkewMS}
		if strings.HasPrefix(ip, "cdn:") {
			ip, cp.Transport = ip[4:], "CDN"
		}
		_, remote, auth, err := w.ClientConfig(cp, rng)
		if err != nil {
			res.err = err
			res.done = true
			return
		}
		d := &simnet.Dialer{Net: c.Net, LocalIP: ip}
		conn, err := d.Dial("tcp", remote.RemoteAddr)
		if err != nil {
			res.err = err
			res.done = true
			return
		}
		if lostReply {
			// the hello is written by hand to learn its length; the link breaks once
			// the server has taken all of it
			cc := &captureConn{}
			remote.Transport.CreateTransport().Handshake(cc, auth)
			if len(cc.w) == 0 {
				res.err = fmt.Errorf("no hello")
				res.done = true
				return
			}
			l := conn.(*simnet.Conn).Link()
			l.Script = append(l.Script, simnet.ScriptedFault{Dir: 0, AtConsumed: int64(len(cc.w[0])), Kind: "reset"})
			conn.Write(cc.w[0])
			conn.SetReadDeadline(time.Now().Add(5 * time.Second))
			conn.Read(make([]byte, 16))
			conn.Close()
			c.Probe("reply_lost_then_retry")
			handshake(user, sid, browser, ip, res, false)
			return
		}
		res.conn = conn
		conn.SetDeadline(time.Now().Add(20 * time.Second))
		tr := remote.Transport.CreateTransport()
		res.key, res.err = tr.Handshake(conn, auth)
		conn.SetDeadline(time.Time{})
		if res.err != nil {
			c.Probe("handshake_failed:" + cp.Transport)
			c.Logf("handshake (%s) failed: %v", cp.Transport, res.err)
		} else {
			c.Probe("handshake_ok:" + cp.Transport)
		}
	}
	// authorised at the moment of connecting?
	// at the time of the burst: 1 authorised, -1 not authorised, 0 too close to the expiry instant to say
	authState := func(u C15User) int {
		if u.UpCredit <= 0 || u.DownCredit <= 0 {
			return -1
		}
		switch left := u.ExpiryS - int64(sc.BurstDelayS); {
		case left >= 25:
			return 1 // the burst itself takes a few virtual seconds at most (20 s handshake deadline)
		case left <= -2:
			return -1
		}
		return 0
	}
	authorised := func(u C15User) bool { return authState(u) == 1 }
	// per-step invariant: the cap
	var capViolation string
	c.W.Invariant = func() string {
		for _, vu := range w.Sta.Panel.VerifUsers() {
			for u := range uids {
				if string(vu.UID[:]) == string(uids[u]) && len(vu.Sessions) > sc.Users[u].Cap {
					capViolation = fmt.Sprintf("cap-exceeded|user %d has %d concurrent sessions, its cap is %d", u, len(vu.Sessions), sc.Users[u].Cap)
					return capViolation
				}
			}
		}
		return ""
	}
	// phase 0: pinned sessions
	pinned := make([]*c15Result, len(sc.Users))
	np := 0
	for u, usr := range sc.Users {
		if usr.Pinned && usr.Cap >= 1 && usr.UpCredit > 0 && usr.DownCredit > 0 && usr.ExpiryS >= 3 {
			pinned[u] = &c15Result{}
			np++
			u := u
			simsync.Go("h:pinned", func() { handshake(u, 0x50000000+uint32(u), "firefox", "10.0.3.1", pinned[u], false) })
		}
	}
	c.Drive(func() bool {
		for _, p := range pinned {
			if p != nil && !p.done {
				return false
			}
		}
		return true
	})
	if c.Failed() {
		return
	}
	for u, p := range pinned {
		if p != nil && p.err != nil {
			c.Fail("admission", "pinned-refused", "user %d (cap %d, credit, not expired): first session refused: %v", u, sc.Users[u].Cap, p.err)
			return
		}
	}
	// credit withdrawn through the admin interface while the user is active
	for u := range sc.Users {
		if usr := sc.Users[u]; usr.AdminZero != 0 && pinned[u] != nil {
			info := usermanager.UserInfo{UID: uids[u]}
			if usr.AdminZero == 1 {
				info.UpCredit = usermanager.JustInt64(0)
				sc.Users[u].UpCredit = 0
			} else {
				info.DownCredit = usermanager.JustInt64(0)
				sc.Users[u].DownCredit = 0
			}
			if err := w.Mgr.WriteUserInfo(info); err != nil {
				c.Fail("setup", "db", "%v", err)
				return
			}
			c.Probe("credit_withdrawn_while_active")
		}
	}
	// phase 1: the burst
	if sc.BurstDelayS > 0 {
		waited := false
		simsync.Go("h:wait", func() { Sleep(time.Duration(sc.BurstDelayS) * time.Second); waited = true })
		c.Drive(func() bool { return waited })
		if c.Failed() {
			return
		}
	}
	results := make([]*c15Result, len(sc.Clients))
	for i, cl := range sc.Clients {
		i, cl := i, cl
		results[i] = &c15Result{}
		ip := fmt.Sprintf("10.0.2.%d", i+1)
		if cl.CDN {
			ip = "cdn:" + ip
		}
		simsync.Go("h:client", func() {
			handshake(cl.User, cl.Session, cl.Browser, ip, results[i], cl.LostReply)
		})
	}
	end := c.Drive(func() bool {
		for _, r := range results {
			if !r.done {
				return false
			}
		}
		return true
	})
	if c.Failed() {
		return
	}
	if end != simsync.EndDone {
		if end == simsync.EndQuiescent {
			c.Fail("admission", "handshake-stuck", "handshakes still pending at final quiescence\n%s", c.W.DumpTasks())
		}
		return
	}
	// partition by key == partition by (user, session id)
	type pk struct {
		u int
		s uint32
	}
	keyOf := map[pk][32]byte{}
	pairOf := map[[32]byte]pk{}
	admitted := map[int]map[uint32]bool{}
	for u, p := range pinned {
		if p != nil {
			pairOf[p.key] = pk{u, 0x50000000 + uint32(u)}
		}
	}
	for i, r := range results {
		cl := sc.Clients[i]
		usr := sc.Users[cl.User]
		// expired in the meantime? (expiry within the run's few virtual seconds)
		stillValid := float64(usr.ExpiryS) > c.W.Elapsed().Seconds()+1
		if cl.Join && pinned[cl.User] != nil {
			// The pinned session has been idle since it was set up. A user that lost its
			// authorisation (expiry passed, credit withdrawn) is still reported by the
			// next periodic upload, 60 s after the server started, and terminated on the
			// manager's answer: a later connection naming the old session id finds no
			// session to join and is judged like a new one. Before that upload, joining
			// the standing session is the documented behaviour (records are cached).
			lostAt := float64(-1)
			if usr.AdminZero != 0 {
				lostAt = 1
			} else if authState(usr) == -1 {
				lostAt = float64(usr.ExpiryS)
			}
			if lostAt >= 0 && lostAt+2 < 60 && sc.BurstDelayS >= 65 && r.err == nil {
				c.Fail("admission", "joined-terminated-user", "client %d: user %d lost its authorisation %v s after the server started (expiry %+d s, credit withdrawn: %v), the upload round at 60 s has reported it, yet a connection naming its old session id was admitted at %d s", i, cl.User, lostAt, usr.ExpiryS, usr.AdminZero != 0, sc.BurstDelayS)
				return
			}
			c.Probe("join_pinned")
			continue
		}
		if authState(usr) == 0 {
			continue
		}
		if !authorised(usr) {
			if r.err == nil {
				c.Fail("admission", "unauthorised-admitted", "client %d: user %d has up credit %d, down credit %d, expiry %+d s: must not start a session, but the handshake succeeded", i, cl.User, usr.UpCredit, usr.DownCredit, usr.ExpiryS)
				return
			}
			continue
		}
		if r.err != nil {
			continue
		}
		_ = stillValid
		p := pk{cl.User, cl.Session}
		if k, ok := keyOf[p]; ok && k != r.key {
			c.Fail("admission", "split-session", "two connections presenting user %d session id %d were given different session keys", cl.User, cl.Session)
			return
		}
		keyOf[p] = r.key
		if q, ok := pairOf[r.key]; ok && q != p {
			c.Fail("admission", "shared-session", "connections of (user %d, session %d) and (user %d, session %d) were given the same session key", p.u, p.s, q.u, q.s)
			return
		}
		pairOf[r.key] = p
		if admitted[cl.User] == nil {
			admitted[cl.User] = map[uint32]bool{}
		}
		admitted[cl.User][cl.Session] = true
	}
	for u, usr := range sc.Users {
		n := len(admitted[u])
		if pinned[u] != nil && sc.BurstDelayS == 0 {
			n++ // (after a delay the pinned session may have been terminated for expiry)
		}
		if n > usr.Cap {
			c.Fail("admission", "cap-exceeded", "user %d: %d distinct sessions were admitted at the same time, cap %d", u, n, usr.Cap)
			return
		}
		// everything fits under the cap: nobody may be refused
		want := map[uint32]bool{}
		for _, cl := range sc.Clients {
			if cl.User == u {
				want[cl.Session] = true
			}
		}
		total := len(want)
		if pinned[u] != nil {
			total++
		}
		if authorised(usr) && total <= usr.Cap {
			for i, cl := range sc.Clients {
				if cl.User == u && results[i].err != nil {
					c.Fail("admission", "refused-under-cap", "client %d (user %d session %d): refused (%v) although the user is authorised and %d sessions fit its cap of %d", i, u, cl.Session, results[i].err, total, usr.Cap)
					return
				}
			}
		}
	}
	c.Probe(fmt.Sprintf("redirected_%v", redirected > 0))
}

func init() {
	register(&Family{Name: "c15-admission", Count: func(tier string) int { return map[string]int{"quick": 1500, "thorough": 60000}[tier] },
		Gen: genC15, New: func() any { return &C15Scenario{} }, Run: runC15, VirtCap: 5 * time.Minute,
		Policy: func(g *Gen) simsync.PolicyConfig {
			p := SwarmPolicy(g)
			p.Stall = 0
			return p
		}})
	plans["C15"] = []string{"c15-admission"}
}
