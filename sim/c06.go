package verifsim

import (
	"bytes"
	"encoding/binary"
	"fmt"
	"math/rand/v2"
	"strings"
	"time"

	"github.com/cbeuw/Cloak/internal/client"
	mux "github.com/cbeuw/Cloak/internal/multiplex"
	"github.com/cbeuw/Cloak/internal/server"
	"github.com/cbeuw/Cloak/internal/simsync"
	"github.com/cbeuw/Cloak/verifsim/simnet"
)

// ---- C06: client and server agree after the handshake; C10: direct mode is a TLS record stream ----
//
// W-full: real client (configuration -> ProcessRawConfig -> MakeSession, uTLS
// hellos, WebSocket over a TLS-terminating CDN edge stub), real server
// (Serve -> dispatchConnection -> panel), proxy upstreams, passive tap.

type FullScenario struct {
	Client       ClientParams `json:"client"`
	UIDKind      int          `json:"uid_kind"` // 0 random, 1 zeros, 2 0xff, 3 limited user from the database
	Streams      []C16Stream  `json:"streams"`
	CloseStreams bool         `json:"close_streams"`
	CloseSession int          `json:"close_session"` // 0 no, 1 client closes, 2 server side closes
	UDPBook      bool         `json:"udp_book"`      // the proxy method is a udp entry of the ProxyBook
	Partial      bool         `json:"partial"`
	Seed         uint64       `json:"seed"`
	// OutageDials: the server (or the CDN edge) refuses that many connection
	// attempts before it is reachable; the client retries every 3 s, so the
	// outage lasts longer than the 180 s the server tolerates between a
	// credential's timestamp and its own clock
	OutageDials int `json:"outage_dials,omitempty"`
}

var fullMethods = []string{"shadowsocks", "a", "openvpn-udp1", "x-1.2_3", "twelve-chars"}
var fullNames = []string{"www.bing.com", "random", "RANDOM", "a.b", "xn--bcher-kva.example", "cdn.example.org"}

func genFull(g *Gen) any {
	sc := &FullScenario{Seed: g.Rng.Uint64(), Partial: g.Bool(0.4), UIDKind: g.Pick(0, 0, 0, 1, 2, 3)}
	cp := ClientParams{Method: fullMethods[g.Rng.IntN(len(fullMethods))], Encryption: []string{"plain", "aes-gcm", "aes-256-gcm", "aes-128-gcm", "chacha20-poly1305", "AES-GCM", "Plain"}[g.Rng.IntN(7)],
		Browser: []string{"chrome", "firefox", "safari", "", "Firefox"}[g.Rng.IntN(5)], Transport: []string{"direct", "direct", "", "CDN", "cdn"}[g.Rng.IntN(5)],
		ServerName: fullNames[g.Rng.IntN(len(fullNames))], NumConn: g.Pick(1, 1, 2, 3, 4, 0), UDP: g.Bool(0.25)}
	cp.SessionID = uint32(g.Pick(0, 1, 0x7fffffff, 0xffffffff, int(g.Rng.Uint32())))
	cp.SkewMS = int64(g.Int(-178000, 178000))
	if strings.EqualFold(cp.Transport, "cdn") {
		cp.CDNOriginHost = []string{"", "origin.example.net"}[g.Rng.IntN(2)]
		cp.CDNWsUrlPath = []string{"", "/", "/ws/tunnel", "/a?b=c"}[g.Rng.IntN(4)]
	}
	sc.Client = cp
	ns := g.Int(1, 3)
	if cp.NumConn == 0 {
		ns = 1
	}
	for i := 0; i < ns; i++ {
		sc.Streams = append(sc.Streams, C16Stream{Up: g.Pick(0, 1, 500, 20000), Down: g.Pick(0, 1, 500, 20000, 40000)})
	}
	sc.CloseStreams = g.Bool(0.5)
	sc.CloseSession = g.Pick(0, 1, 1, 2)
	sc.UDPBook = cp.UDP && g.Bool(0.5)
	if sc.Seed%6 == 1 {
		sc.OutageDials = 62 + int(sc.Seed>>8)%10
		sc.Client.NumConn = min(sc.Client.NumConn, 1)
	}
	return sc
}

func runFull(c *Ctx, scAny any) {
	sc := scAny.(*FullScenario)
	c.Net.TapOn = true
	c.Net.DefaultPartial = sc.Partial
	cp := sc.Client
	book := map[string][]string{cp.Method: {"tcp", "10.0.0.3:8388"}, "other": {"tcp", "10.0.0.3:9999"}}
	if sc.UDPBook {
		book[cp.Method] = []string{"udp", "10.0.0.3:8388"}
	}
	w := NewSrvWorld(c, SrvParams{ProxyBook: book, NBypass: 2, WithDB: sc.UIDKind == 3})
	defer w.Cleanup()
	// a rival: in a third of the runs another user of the same server (its own
	// UID and session id) performs its handshakes at the same time; what the
	// server recovers for one client must not depend on the other
	rival := sc.Seed%3 == 0
	switch sc.UIDKind {
	case 0:
		cp.UID = w.Bypass[0]
	case 1, 2:
		// all-zero / all-ones UIDs are as good as any: put them on the bypass list
		b := byte(0)
		if sc.UIDKind == 2 {
			b = 0xff
		}
		cp.UID = bytes.Repeat([]byte{b}, 16)
		var arr [16]byte
		copy(arr[:], cp.UID)
		w.Sta.BypassUID[arr] = struct{}{}
	case 3:
		cp.UID = randBytes(c.Rng, 16)
		if err := mkUser(w, cp.UID, 5, 1e9, 1e9, 1<<40, 1<<40, time.Now().Add(1000*time.Hour).Unix()); err != nil {
			c.Fail("setup", "db", "%v", err)
			return
		}
	}
	edge := NewEdgeStub(c)
	simsync.Go("h:serve", func() { server.Serve(w.Front, w.Sta) })
	upRecv := make([]int64, 1)
	rightUpstream, wrongUpstream := 0, 0
	startUpstream(w.Upstream[cp.Method], upRecv, func() { rightUpstream++ })
	startUpstream(w.Upstream["other"], upRecv, func() { wrongUpstream++ })
	redirected := 0
	simsync.Go("h:target", func() {
		for {
			tc, err := w.Redir.Accept()
			if err != nil {
				return
			}
			redirected++
			tc.Close()
		}
	})
	rng := rand.New(rand.NewPCG(sc.Seed, 6))
	_, remote, auth, err := w.ClientConfig(cp, rng)
	if err != nil {
		c.Fail("config", "rejected", "a valid configuration was rejected: %v", err)
		return
	}
	cdn := strings.EqualFold(cp.Transport, "cdn")
	if sc.OutageDials > 0 {
		addr := "10.0.0.2:443"
		if cdn {
			addr = "10.0.0.8:443"
		}
		c.Net.DialFail[addr] = sc.OutageDials
	}
	var sesh *mux.Session
	finished := false
	pending := 0
	var clientKey [32]byte
	var srvSesh *mux.Session
	var found bool
	if rival {
		rp := ClientParams{UID: w.Bypass[1], Method: cp.Method, Encryption: "aes-gcm", Browser: "firefox", Transport: cp.Transport, ServerName: cp.ServerName,
			NumConn: 2, SessionID: cp.SessionID ^ 0x5a5a5a5a, CDNOriginHost: cp.CDNOriginHost, CDNWsUrlPath: cp.CDNWsUrlPath}
		_, rremote, rauth, rerr := w.ClientConfig(rp, rand.New(rand.NewPCG(sc.Seed, 66)))
		if rerr == nil {
			simsync.Go("h:rival", func() {
				d := &simnet.Dialer{Net: c.Net, LocalIP: "10.0.6.2", Tag: "rival"}
				client.MakeSession(rremote, rauth, d)
			})
		}
	}
	simsync.Go("h:client", func() {
		defer func() { finished = true }()
		d := &simnet.Dialer{Net: c.Net, LocalIP: "10.0.6.1", Tag: "front"}
		sesh = client.MakeSession(remote, auth, d)
		clientKey = sesh.GetSessionKey()
		// what the server made of the handshake (looked at right away: a singleplex
		// session disappears with its stream)
		for _, u := range w.Sta.Panel.VerifUsers() {
			if bytes.Equal(u.UID[:], cp.UID) {
				if s, ok := u.Sessions[cp.SessionID]; ok {
					srvSesh, found = s, true
				}
			}
		}
		for _, st := range sc.Streams {
			st := st
			pending++
			simsync.Go("h:client-stream", func() {
				defer func() { pending-- }()
				stream, err := sesh.OpenStream()
				if err != nil {
					c.Fail("traffic", "error:open", "OpenStream: %v", err)
					return
				}
				if sc.UDPBook {
					// datagram upstream: one small datagram each way is enough to see the relay work
					stream.Write([]byte("ping"))
					return
				}
				hdr := make([]byte, 12)
				binary.BigEndian.PutUint32(hdr, uint32(st.Up))
				binary.BigEndian.PutUint32(hdr[4:], uint32(st.Down))
				if cp.UDP {
					// unordered session over a tcp upstream: keep to one small frame (asks for nothing)
					stream.Write(make([]byte, 12))
					return
				}
				if _, err := stream.Write(hdr); err != nil {
					c.Fail("traffic", "error:write", "%v", err)
					return
				}
				wdone := make(chan struct{})
				simsync.Go("h:client-stream-w", func() {
					defer close(wdone)
					buf := make([]byte, 8192)
					for off := 0; off < st.Up; off += len(buf) {
						if _, err := stream.Write(buf[:min(len(buf), st.Up-off)]); err != nil {
							return
						}
					}
				})
				buf := make([]byte, 16384)
				for got := 0; got < st.Down; {
					n, err := stream.Read(buf)
					got += n
					if err != nil {
						c.Fail("traffic", "error:read", "stream read after %d of %d: %v", got, st.Down, err)
						break
					}
				}
				Await(wdone)
				if sc.CloseStreams {
					stream.Close()
				}
			})
		}
		for pending > 0 {
			Sleep(10 * time.Millisecond)
		}
	})
	end := c.Drive(func() bool { return finished })
	if c.Failed() || end != simsync.EndDone {
		if end == simsync.EndQuiescent && !c.Failed() {
			c.Fail("handshake", "stuck", "a correctly configured client inside the clock window never got its session (redirected %d times)\n%s", redirected, c.W.DumpTasks())
		}
		return
	}
	// ---- C06 oracle: what the server recovered ----
	if !found {
		c.Fail("agreement", "identity", "no session for UID %x / session id %d is known to the server after the handshake (redirected %d)", cp.UID, cp.SessionID, redirected)
		return
	}
	if srvSesh.GetSessionKey() != clientKey {
		c.Fail("agreement", "session-key", "client and server hold different session keys")
		return
	}
	if srvSesh.Unordered != cp.UDP {
		c.Fail("agreement", "unordered-flag", "the client asked for unordered=%v, the server's session has %v", cp.UDP, srvSesh.Unordered)
		return
	}
	if wrongUpstream > 0 || redirected > 0 {
		c.Fail("agreement", "proxy-method", "traffic of proxy method %q reached another upstream (%d) or the redirect target (%d)", cp.Method, wrongUpstream, redirected)
		return
	}
	if rightUpstream == 0 && len(sc.Streams) > 0 {
		c.Fail("agreement", "proxy-method", "no connection reached the upstream of proxy method %q", cp.Method)
		return
	}
	// encryption method: records on the wire must decode under (key, configured method)
	method := map[string]byte{"plain": 0, "aes-gcm": 1, "aes-256-gcm": 1, "aes-128-gcm": 3, "chacha20-poly1305": 2}[strings.ToLower(cp.Encryption)]
	codec, _ := NewRefCodec(method, clientKey)
	front := frontLinks(c)
	if !cdn {
		for _, l := range front {
			if msg := checkDirectWire(l, codec, cp, w); msg != "" {
				sig := msg[:strings.Index(msg, "|")]
				c.Fail("wire", sig, "%s", msg[len(sig)+1:])
				return
			}
		}
		c.Probe("direct_wire_checked")
	} else {
		// CDN mode: the edge saw a WebSocket upgrade request for the configured host and path
		for i, p := range edge.Plain {
			if msg := checkEdgeRequest(p, cp); msg != "" {
				c.Fail("wire", "cdn-request", "connection %d through the edge: %s", i, msg)
				return
			}
		}
		c.Probe("cdn_request_checked")
	}
	wantConns := cp.NumConn
	if wantConns <= 0 {
		wantConns = 1
	}
	if len(front) != wantConns {
		c.Fail("agreement", "num-conn", "NumConn=%d: %d transport connections were made", cp.NumConn, len(front))
		return
	}
	// ---- teardown part of the traffic mix (its records are judged by the same tap) ----
	if sc.CloseSession > 0 {
		closed := false
		simsync.Go("h:closer", func() {
			if sc.CloseSession == 1 {
				sesh.Close()
			} else {
				srvSesh.Close()
			}
			closed = true
		})
		c.Drive(func() bool { return closed && c.Net.Idle() })
		if c.Failed() {
			return
		}
		if !cdn {
			for _, l := range frontLinks(c) {
				if msg := checkDirectWire(l, codec, cp, w); msg != "" {
					sig := msg[:strings.Index(msg, "|")]
					c.Fail("wire", sig, "after session close: %s", msg[len(sig)+1:])
					return
				}
			}
		}
	}
	c.Probe("agree:" + strings.ToLower(cp.Transport) + ":" + strings.ToLower(cp.Browser))
}

func frontLinks(c *Ctx) []*simnet.Link {
	var out []*simnet.Link
	for _, l := range c.Net.Links() {
		if l.Tag == "front" {
			out = append(out, l)
		}
	}
	return out
}

// checkDirectWire is C10's oracle on one client<->server connection.
func checkDirectWire(l *simnet.Link, codec *RefCodec, cp ClientParams, w *SrvWorld) string {
	up, down := l.Dir[0].TapBuf, l.Dir[1].TapBuf
	crecs, crest := parseRecords(up)
	srecs, srest := parseRecords(down)
	if crest != 0 || srest != 0 {
		return fmt.Sprintf("tls:partial-record|%d / %d trailing bytes that do not form a TLS record (client / server direction)", crest, srest)
	}
	if len(crecs) == 0 {
		return "tls:no-hello|the client sent nothing"
	}
	// client's first flight: one handshake record with a valid ClientHello
	first := up[:5+len(crecs[0].Body)]
	if len(l.Dir[0].Bounds) > 0 && l.Dir[0].Bounds[0] != len(first) {
		return fmt.Sprintf("tls:first-flight|the client's first write has %d bytes, its first record %d: the first flight must be exactly one record", l.Dir[0].Bounds[0], len(first))
	}
	ch, err := parseClientHello(first)
	if err != nil {
		return "tls:client-hello|" + err.Error()
	}
	if ch.SessionIDLen != 32 || ch.KeyShareLen != 32 {
		return fmt.Sprintf("tls:client-hello|session id of %d bytes, X25519 key share of %d bytes (want 32 and 32)", ch.SessionIDLen, ch.KeyShareLen)
	}
	name := cp.ServerName
	if name == "" {
		name = "www.bing.com"
	}
	if strings.EqualFold(name, "random") {
		if !validHost(ch.SNI) {
			return fmt.Sprintf("tls:sni|ServerName=random produced the server name %q", ch.SNI)
		}
	} else if ch.SNI != name {
		return fmt.Sprintf("tls:sni|server name on the wire is %q, configured %q", ch.SNI, name)
	}
	// server's answer: ServerHello (session id echoed) + ChangeCipherSpec + one application-data record
	if len(srecs) < 3 {
		return fmt.Sprintf("tls:server-flight|the server sent %d records, want at least ServerHello, ChangeCipherSpec, application data", len(srecs))
	}
	sh, err := parseServerHello(down[srecs[0].Off : srecs[0].Off+5+len(srecs[0].Body)])
	if err != nil {
		return "tls:server-hello|" + err.Error()
	}
	if !bytes.Equal(sh.SessionID, first[ch.SessionIDOff:ch.SessionIDOff+32]) {
		return "tls:server-hello-session-id|the ServerHello does not echo the client's session id"
	}
	if len(sh.KeyShare) != 32 {
		return fmt.Sprintf("tls:server-hello|key share of %d bytes", len(sh.KeyShare))
	}
	if r := srecs[1]; r.Type != 20 || r.Version != 0x0303 || !bytes.Equal(r.Body, []byte{1}) {
		return fmt.Sprintf("tls:ccs|second server record is type %d version %#04x body % x, want ChangeCipherSpec", r.Type, r.Version, r.Body)
	}
	check := func(recs []TLSRecord, from int, dir string, decode bool) string {
		for i := from; i < len(recs); i++ {
			r := recs[i]
			if r.Type != 23 || r.Version != 0x0303 {
				return fmt.Sprintf("tls:record-header|%s record %d has type %d version %#04x, want application data 3.3", dir, i, r.Type, r.Version)
			}
			if len(r.Body) == 0 || len(r.Body) > 1<<14+256 {
				return fmt.Sprintf("tls:record-length|%s record %d has length %d (must be 1..%d)", dir, i, len(r.Body), 1<<14+256)
			}
			if decode && codec != nil && (i > from || dir == "client") {
				if _, err := codec.Decode(r.Body); err != nil {
					return fmt.Sprintf("agreement:encryption-method|%s record %d does not decode under the session key and the configured encryption method %q: %v", dir, i, cp.Encryption, err)
				}
			}
		}
		return ""
	}
	if msg := check(crecs, 1, "client", true); msg != "" {
		return msg
	}
	// the first application-data record of the server is the fake certificate: not a frame
	return check(srecs, 2, "server", true)
}

func validHost(h string) bool {
	if len(h) < 3 || len(h) > 253 || !strings.Contains(h, ".") {
		return false
	}
	for _, lbl := range strings.Split(h, ".") {
		if lbl == "" || len(lbl) > 63 {
			return false
		}
		for _, r := range lbl {
			if !(r >= 'a' && r <= 'z' || r >= '0' && r <= '9' || r == '-') {
				return false
			}
		}
	}
	return true
}

func checkEdgeRequest(p []byte, cp ClientParams) string {
	i := bytes.Index(p, []byte("\r\n\r\n"))
	if i < 0 {
		return "no complete HTTP request reached the origin side of the edge"
	}
	lines := strings.Split(string(p[:i]), "\r\n")
	path := cp.CDNWsUrlPath
	if path == "" {
		path = "/"
	}
	if lines[0] != "GET "+path+" HTTP/1.1" {
		return fmt.Sprintf("request line %q, configured path %q", lines[0], path)
	}
	host := cp.CDNOriginHost
	if host == "" {
		host = "10.0.0.8"
	}
	wantHost := "Host: " + host + ":443"
	ok, hidden, upgrade := false, false, false
	for _, l := range lines[1:] {
		if l == wantHost {
			ok = true
		}
		if strings.HasPrefix(strings.ToLower(l), "hidden: ") {
			hidden = true
		}
		if strings.EqualFold(l, "Upgrade: websocket") {
			upgrade = true
		}
	}
	if !ok {
		return fmt.Sprintf("no %q header among %q", wantHost, lines[1:])
	}
	if !hidden || !upgrade {
		return "the request is not a WebSocket upgrade carrying the hidden header"
	}
	return ""
}

func init() {
	pol := func(g *Gen) simsync.PolicyConfig {
		p := SwarmPolicy(g)
		p.Stall = 0
		return p
	}
	register(&Family{Name: "full-agree", Count: func(tier string) int { return map[string]int{"quick": 1200, "thorough": 40000}[tier] },
		Gen: genFull, New: func() any { return &FullScenario{} }, Run: runFull, Policy: pol, VirtCap: 5 * time.Minute, MaxSteps: 600000})
	plans["C06"] = []string{"full-agree"}
	plans["C10"] = []string{"full-agree"}
}
