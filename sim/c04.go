package verifsim

import (
	"bytes"
	"fmt"
	"io"
	"net"
	"time"

	"github.com/cbeuw/Cloak/internal/common"
	mux "github.com/cbeuw/Cloak/internal/multiplex"
	"github.com/cbeuw/Cloak/internal/simsync"
)

// ---- C04: frame encoding round trip, size limit, wire format ----
//
// (a) c04-lengths: every payload length 1..max for the limit, four methods,
//     both buffer placements, against the independent reference codec. This
//     part is input enumeration riding along in the simulator (DESIGN.md 5 C04).
// (b) c04-mixed: worlds in which one side of the session is the reference
//     peer: Cloak's sender must be understood by an independent receiver and
//     vice versa, under the C01 workload and schedule/delivery search.

type C04Lengths struct {
	Method  byte   `json:"method"`
	InPlace bool   `json:"in_place"`
	From    int    `json:"from"`
	To      int    `json:"to"` // inclusive
	Limit   int    `json:"limit"`
	Seed    uint64 `json:"seed"`
}

const c04Block = 64

func c04Limit(tier string) int {
	if tier == "thorough" {
		return 16401 // what both shipped endpoints configure
	}
	return 1800
}

func c04LengthsCount(tier string) int {
	max := c04Limit(tier) - 14 - 255
	blocks := (max + c04Block - 1) / c04Block
	return blocks * 4 * 2
}

func genC04Lengths(g *Gen) any {
	limit := c04Limit(g.Tier)
	max := limit - 14 - 255
	blocks := (max + c04Block - 1) / c04Block
	i := g.Idx
	b := i % blocks
	i /= blocks
	sc := &C04Lengths{Method: byte(i % 4), InPlace: i/4 == 1, From: b*c04Block + 1, To: min((b+1)*c04Block, max), Limit: limit, Seed: g.Rng.Uint64()}
	return sc
}

func runC04Lengths(c *Ctx, scAny any) {
	sc := scAny.(*C04Lengths)
	var key [32]byte
	for i := range key {
		key[i] = byte(c.Rng.Uint32())
	}
	obf, err := mux.MakeObfuscator(sc.Method, key)
	if err != nil {
		panic(err)
	}
	ref, _ := NewRefCodec(sc.Method, key)
	buf := make([]byte, sc.Limit)
	for n := sc.From; n <= sc.To; n++ {
		f := mux.Frame{StreamID: c.Rng.Uint32(), Seq: uint64(n % 9), Closing: byte(c.Rng.IntN(3)), Payload: make([]byte, n)}
		if c.Rng.IntN(4) == 0 {
			f.Seq = c.Rng.Uint64()
		}
		fillPat(f.Payload, sc.Seed, uint32(n), 4, 0)
		want := append([]byte(nil), f.Payload...)
		off := 0
		if sc.InPlace {
			off = mux.VerifFrameHeaderLength
			copy(buf[off:], f.Payload)
			f.Payload = buf[off : off+n]
		}
		k, err := obf.VerifObfuscate(&f, buf, off)
		if err != nil {
			c.Fail("codec", "encode-error", "method %d in_place=%v payload %d seq %d: obfuscate failed: %v (every payload up to the per-frame maximum %d must fit the limit %d)", sc.Method, sc.InPlace, n, f.Seq, err, sc.Limit-14-255, sc.Limit)
			return
		}
		if k > sc.Limit {
			c.Fail("codec", "over-limit", "method %d payload %d: encoded message has %d bytes, limit %d", sc.Method, n, k, sc.Limit)
			return
		}
		msg := append([]byte(nil), buf[:k]...)
		// 1. an independent decoder must understand it
		rf, err := ref.Decode(msg)
		if err != nil {
			c.Fail("codec", "wire-format", "method %d in_place=%v payload %d seq %d: the reference codec cannot decode Cloak's message (%d bytes): %v", sc.Method, sc.InPlace, n, f.Seq, k, err)
			return
		}
		if rf.StreamID != f.StreamID || rf.Seq != f.Seq || rf.Closing != f.Closing || !bytes.Equal(rf.Payload, want) {
			c.Fail("codec", "wire-format", "method %d in_place=%v payload %d: reference decode differs: stream %d/%d seq %d/%d closing %d/%d payload equal=%v", sc.Method, sc.InPlace, n, rf.StreamID, f.StreamID, rf.Seq, f.Seq, rf.Closing, f.Closing, bytes.Equal(rf.Payload, want))
			return
		}
		if f.Seq >= 5 && rf.PadLen != 0 {
			c.Fail("codec", "padding", "method %d payload %d seq %d: %d bytes of padding although only the first five frames are padded", sc.Method, n, f.Seq, rf.PadLen)
			return
		}
		if k != 14+n+rf.PadLen+ref.TagLen() {
			c.Fail("codec", "wire-format", "method %d payload %d: message length %d != 14 + %d + pad %d + tag %d", sc.Method, n, k, n, rf.PadLen, ref.TagLen())
			return
		}
		// 2. Cloak's own decoder (round trip)
		var back mux.Frame
		if err := obf.VerifDeobfuscate(&back, append([]byte(nil), msg...)); err != nil {
			c.Fail("codec", "round-trip", "method %d payload %d seq %d: deobfuscate failed on obfuscate's output: %v", sc.Method, n, f.Seq, err)
			return
		}
		if back.StreamID != f.StreamID || back.Seq != f.Seq || back.Closing != f.Closing || !bytes.Equal(back.Payload, want) {
			c.Fail("codec", "round-trip", "method %d payload %d: round trip differs", sc.Method, n)
			return
		}
		// 3. the other way round: an independent encoder must be understood
		pad := 0
		if f.Seq < 5 {
			pad = c.Rng.IntN(255 - ref.TagLen() + 1)
		}
		rnd := make([]byte, pad+8)
		for i := range rnd {
			rnd[i] = byte(c.Rng.Uint32())
		}
		rmsg := ref.Encode(RefFrame{StreamID: f.StreamID, Seq: f.Seq, Closing: f.Closing, Payload: want, PadLen: pad}, rnd)
		var back2 mux.Frame
		if err := obf.VerifDeobfuscate(&back2, rmsg); err != nil {
			c.Fail("codec", "wire-format", "method %d payload %d seq %d pad %d: Cloak cannot decode the reference encoder's message: %v", sc.Method, n, f.Seq, pad, err)
			return
		}
		if back2.StreamID != f.StreamID || back2.Seq != f.Seq || back2.Closing != f.Closing || !bytes.Equal(back2.Payload, want) {
			c.Fail("codec", "wire-format", "method %d payload %d: Cloak decodes the reference encoder's message differently", sc.Method, n)
			return
		}
	}
	c.Probe(fmt.Sprintf("lengths_checked_method%d", sc.Method))
}

// ---- mixed-implementation worlds ----

type C04Mixed struct {
	Sess      SessParams   `json:"sess"`
	RefServer bool         `json:"ref_server"` // the reference peer plays the accepting side
	PatKey    uint64       `json:"pat_key"`
	Streams   []StreamPlan `json:"streams"`
	CloseEnd  bool         `json:"close_end"`
	Neighbour bool         `json:"neighbour,omitempty"`
	// Handshakes: the session's obfuscator is built the way a busy server builds
	// it - by one of several tasks calling MakeObfuscator at the same time (the
	// connections of this session, a connection of another one), after an earlier
	// session with another key
	Handshakes bool `json:"handshakes,omitempty"`
}

func genC04Mixed(g *Gen) any {
	sc := &C04Mixed{RefServer: g.Bool(0.5), PatKey: g.Rng.Uint64(), CloseEnd: g.Bool(0.5), Handshakes: g.Bool(0.3)}
	sc.Sess = genSessParams(g, 4)
	sc.Sess.LateConns, sc.Sess.LateAfter, sc.Sess.Stalls = false, nil, nil
	ns := g.Int(1, 4)
	for i := 0; i < ns; i++ {
		pl := StreamPlan{SizeClass: g.Int(1, 4), SizeSeed: g.Rng.Uint64(), ReadBuf: g.Pick(7, 512, 3000, 16384, 40000)}
		lim := min(20000, 100*pl.ReadBuf)
		pl.Up, pl.Down = g.Int(0, lim), g.Int(0, lim)
		pl.ViaCopyW = g.Bool(0.35)
		sc.Streams = append(sc.Streams, pl)
	}
	if sc.PatKey%5 == 0 {
		// a neighbour: another session of the same process under the plain method
		// opens streams and sends its first (padded) frames while this session,
		// under an authenticated method, sends its own first frames on many streams
		sc.Neighbour = true
		sc.RefServer = true // Cloak opens the streams: their first five frames each carry padding
		sc.Sess.Method = byte(1 + sc.PatKey>>8%3)
		sc.Streams = nil
		for i := 0; i < g.Int(8, 16); i++ {
			sc.Streams = append(sc.Streams, StreamPlan{SizeClass: 1, SizeSeed: g.Rng.Uint64(), ReadBuf: 4096, Up: g.Int(5, 40), Down: g.Int(0, 40)})
		}
	} else if sc.PatKey%5 == 1 {
		// many young streams closed by Cloak: a closing frame carries 1..256 random
		// bytes and, while its stream has sent fewer than five frames, up to 255
		// bytes of padding - the reference peer must be able to decode every one of
		// them (a frame of the full 525 bytes turns up about once in 700 closes)
		sc.RefServer, sc.CloseEnd = false, true
		sc.Streams = nil
		for i := g.Int(60, 160); i > 0; i-- {
			sc.Streams = append(sc.Streams, StreamPlan{SizeClass: 1, SizeSeed: g.Rng.Uint64(), ReadBuf: 4096, Up: g.Int(0, 40), Down: g.Pick(0, 0, g.Int(1, 40))})
		}
	}
	return sc
}

type rwc interface {
	io.Reader
	io.Writer
	Close() error
}

func runC04Mixed(c *Ctx, scAny any) {
	sc := scAny.(*C04Mixed)
	p := sc.Sess
	var key [32]byte
	for i := range key {
		key[i] = byte(c.Rng.Uint32())
	}
	obf, err := mux.MakeObfuscator(p.Method, key)
	if err != nil {
		panic(err)
	}
	if sc.Handshakes {
		earlier := key
		earlier[0] ^= 0xff
		mux.MakeObfuscator(p.Method, earlier)
		made := 0
		for i := 0; i < 3; i++ {
			i := i
			simsync.Go("h:make-obfuscator", func() {
				k := key
				if i == 2 {
					k[1] ^= 0x55 // another session's connection
				}
				o, err := mux.MakeObfuscator(p.Method, k)
				if err == nil && i == int(sc.PatKey%2) {
					obf = o
				}
				made++
			})
		}
		c.Drive(func() bool { return made == 3 })
		if c.Failed() {
			return
		}
		c.Probe("obfuscator_built_among_concurrent_handshakes")
	}
	sesh := mux.MakeSession(9, mux.SessionConfig{Obfuscator: obf, MsgOnWireSizeLimit: p.WireLimit, InactivityTimeout: 3600e9})
	peer := NewRefPeer(p.Method, key, p.WireLimit, c.Rng.Uint64())
	c.Net.DefaultPartial = p.Partial
	for i := 0; i < max(p.NConn, 1); i++ {
		a, b := c.Net.Pipe(fmt.Sprintf("mux%d", i))
		if i < len(p.Weights) && p.Weights[i] > 0 {
			a.Link().Dir[0].Weight, a.Link().Dir[1].Weight = p.Weights[i], p.Weights[i]
		}
		sesh.AddConnection(common.NewTLSConn(a))
		peer.AddConn(b)
	}
	limit := p.WireLimit
	if limit <= 0 {
		limit = 16640
	}
	wl := &streamWorkload{c: c, key: sc.PatKey, limit: limit - 14 - 255}
	for i, pl := range sc.Streams {
		wl.states = append(wl.states, &streamState{plan: pl, tag: uint32(i)})
	}
	if sc.Neighbour {
		var key2 [32]byte
		for i := range key2 {
			key2[i] = byte(c.Rng.Uint32())
		}
		obf2, _ := mux.MakeObfuscator(mux.EncryptionMethodPlain, key2)
		sesh2 := mux.MakeSession(10, mux.SessionConfig{Obfuscator: obf2, InactivityTimeout: 3600e9})
		peer2 := NewRefPeer(mux.EncryptionMethodPlain, key2, 0, c.Rng.Uint64())
		a2, b2 := c.Net.Pipe("neighbour")
		sesh2.AddConnection(common.NewTLSConn(a2))
		peer2.AddConn(b2)
		simsync.Go("h:neighbour-accept", func() {
			for {
				s, err := peer2.Accept()
				if err != nil {
					return
				}
				simsync.Go("h:neighbour-drain", func() { io.Copy(io.Discard, s) })
			}
		})
		simsync.Go("h:neighbour", func() {
			for k := 0; k < 40; k++ {
				s, err := sesh2.OpenStream()
				if err != nil {
					return
				}
				for j := 0; j < 5; j++ {
					if _, err := s.Write([]byte{byte(k), byte(j)}); err != nil {
						return
					}
				}
			}
		})
	}
	closedOK := 0
	wantClosed := 0
	closeCalled := map[uint32]time.Duration{} // stream tag -> virtual time of the acceptor's Close
	// opener side
	open := func(st *streamState) rwc {
		if sc.RefServer {
			s, err := sesh.OpenStream()
			if err != nil {
				c.Fail("stream-error", "error:open", "OpenStream: %v", err)
				return nil
			}
			return s
		}
		return peer.Open(st.tag + 1)
	}
	accept := func() (rwc, error) {
		if sc.RefServer {
			return peer.Accept()
		}
		conn, err := sesh.Accept()
		if err != nil {
			return nil, err
		}
		return conn.(net.Conn), nil
	}
	for _, st := range wl.states {
		st := st
		simsync.Go("h:opener", func() {
			s := open(st)
			if s == nil {
				return
			}
			simsync.Go("h:opener-w", func() {
				var w io.Writer = s
				if nc, ok := s.(net.Conn); ok && st.plan.ViaCopyW && sc.RefServer {
					// Cloak's in-place path: the bytes reach the stream through
					// common.Copy -> Stream.ReadFrom (as in RouteTCP / serveSession)
					w = wl.relayInto(nc)
				}
				if _, err := w.Write(putTag(st.tag)); err != nil {
					c.Fail("stream-error", "error:write", "tag: %v", err)
					return
				}
				wl.writePat(w, st, 0, st.plan.Up, "opener")
			})
			if wl.readPat(s, st, 1, st.plan.Down, &st.downRead, "opener") {
				st.downDone = true
				if sc.CloseEnd {
					// the acceptor closes after writing everything: the opener must see the end of the stream
					wantClosed++
					b := make([]byte, 16)
					if n, err := s.Read(b); err == nil {
						c.Fail("stream-data", "data:excess", "opener read %d bytes beyond what was written", n)
					} else if at, ok := closeCalled[st.tag]; ok && c.W.Elapsed() > at+500*time.Millisecond {
						// (no link is stalled here and time passes only when nothing can run: a
						// closing frame that was sent and decoded ends this Read at the instant of
						// the Close; later, it was the session's inactivity timer)
						c.Fail("stream-error", "close-frame-lost", "stream %d: the acceptor's Close was called at %v, the opener's Read only ended at %v (%v): the closing frame did not get through", st.tag, at, c.W.Elapsed(), err)
					} else {
						closedOK++
					}
				}
			}
		})
	}
	simsync.Go("h:accept", func() {
		for {
			s, err := accept()
			if err != nil {
				return
			}
			simsync.Go("h:acceptor", func() {
				tagb := make([]byte, tagLen)
				if _, err := io.ReadFull(s, tagb); err != nil {
					c.Fail("stream-error", "error:read", "acceptor reading tag: %v", err)
					return
				}
				tag, ok := getTag(tagb)
				if !ok || int(tag) >= len(wl.states) {
					c.Fail("stream-data", "data:mismatch", "accepted stream starts with %x, not a tag", tagb)
					return
				}
				st := wl.states[tag]
				wdone := make(chan struct{})
				simsync.Go("h:acceptor-w", func() {
					defer close(wdone)
					wl.writePat(s, st, 1, st.plan.Down, "acceptor")
				})
				if wl.readPat(s, st, 0, st.plan.Up, &st.upRead, "acceptor") {
					st.upDone = true
					if sc.CloseEnd {
						Await(wdone)
						closeCalled[st.tag] = c.W.Elapsed()
						if err := s.Close(); err != nil {
							c.Fail("stream-error", "error:close", "stream %d: Close on a healthy session, after %d bytes written by this side: %v", st.tag, st.plan.Down, err)
						}
					}
				}
			})
		}
	})
	end := c.Drive(func() bool {
		return wl.done() && closedOK == wantClosed && (!sc.CloseEnd || wantClosed == len(wl.states))
	})
	if c.Failed() {
		return
	}
	if peer.Err != nil && !sesh.IsClosed() {
		c.Fail("codec", "wire-format", "the reference peer gave up on what Cloak sent: %v", peer.Err)
		return
	}
	if sesh.IsClosed() {
		c.Fail("session-alive", "session-closed", "Cloak's session closed itself (%q) while talking to the reference peer", sesh.TerminalMsg())
		return
	}
	if end == simsync.EndQuiescent && !wl.done() {
		c.Fail("stream-liveness", "stuck", "final quiescence with undelivered data between Cloak and the reference peer (ref_server=%v)\n%s", sc.RefServer, c.W.DumpTasks())
		return
	}
	if end != simsync.EndDone {
		return
	}
	// the last message of a session: Cloak closes, and the notice it sends must
	// decode under the session key like every other message
	closed := false
	simsync.Go("h:close", func() { sesh.Close(); closed = true })
	c.Drive(func() bool { return closed && c.Net.Idle() })
	settled := false
	simsync.Go("h:settle", func() { Sleep(time.Second); settled = true })
	c.Drive(func() bool { return settled })
	if c.Failed() {
		return
	}
	if peer.Err != nil && !peer.SessionCloseSeen {
		c.Fail("codec", "wire-format:close-notice", "Cloak closed its session; the reference peer could not make sense of what it sent last: %v", peer.Err)
		return
	}
	if !peer.SessionCloseSeen {
		c.Fail("codec", "close-notice-missing", "Cloak closed its session but the reference peer never received a session-closing message")
		return
	}
	c.Probe("close_notice_decoded")
}

func init() {
	pol := func(g *Gen) simsync.PolicyConfig {
		p := SwarmPolicy(g)
		p.Stall = 0
		return p
	}
	register(&Family{Name: "c04-lengths", Enumerated: true, Count: c04LengthsCount, Gen: genC04Lengths, New: func() any { return &C04Lengths{} }, Run: runC04Lengths, Policy: pol})
	register(&Family{Name: "c04-mixed", Count: func(tier string) int { return map[string]int{"quick": 2500, "thorough": 80000}[tier] },
		Gen: genC04Mixed, New: func() any { return &C04Mixed{} }, Run: runC04Mixed, Policy: pol})
	plans["C04"] = []string{"c04-lengths", "c04-mixed"}
}
