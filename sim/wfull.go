package verifsim

import (
	"crypto/ecdsa"
	"crypto/elliptic"
	"crypto/tls"
	"crypto/x509"
	"crypto/x509/pkix"
	"io"
	"math/big"
	"net"
	"time"

	"github.com/cbeuw/Cloak/internal/simsync"
	"github.com/cbeuw/Cloak/verifsim/simnet"
)

// ---- W-full pieces: CDN edge stub, proxy upstream, helpers ----

const edgeAddr = "10.0.0.8:443"

// EdgeStub is the CDN edge: it terminates TLS (crypto/tls, self-signed
// certificate: the client does not verify) and forwards the plaintext to the
// Cloak server, as a CDN forwards WebSocket traffic to its origin.
type EdgeStub struct {
	c        *Ctx
	Listener *simnet.Listener
	cfg      *tls.Config
	// what the edge saw after decryption, per connection (client -> origin direction)
	Plain [][]byte
	SNI   []string
	Conns int
}

func NewEdgeStub(c *Ctx) *EdgeStub {
	e := &EdgeStub{c: c}
	key, err := ecdsa.GenerateKey(elliptic.P256(), rngReader{c.Rng})
	if err != nil {
		panic(err)
	}
	tmpl := &x509.Certificate{SerialNumber: big.NewInt(1), Subject: pkix.Name{CommonName: "edge"}, NotBefore: time.Now().Add(-time.Hour), NotAfter: time.Now().Add(1000 * time.Hour),
		DNSNames: []string{"edge.example"}, KeyUsage: x509.KeyUsageDigitalSignature, ExtKeyUsage: []x509.ExtKeyUsage{x509.ExtKeyUsageServerAuth}}
	der, err := x509.CreateCertificate(rngReader{c.Rng}, tmpl, tmpl, &key.PublicKey, key)
	if err != nil {
		panic(err)
	}
	e.cfg = &tls.Config{Certificates: []tls.Certificate{{Certificate: [][]byte{der}, PrivateKey: key}},
		GetConfigForClient: func(h *tls.ClientHelloInfo) (*tls.Config, error) {
			e.SNI = append(e.SNI, h.ServerName)
			return nil, nil
		}}
	e.Listener = c.Net.Listen(edgeAddr)
	simsync.Go("h:edge", func() {
		for {
			conn, err := e.Listener.Accept()
			if err != nil {
				return
			}
			idx := e.Conns
			e.Conns++
			e.Plain = append(e.Plain, nil)
			simsync.Go("h:edge-conn", func() { e.serve(conn, idx) })
		}
	})
	return e
}

func (e *EdgeStub) serve(conn net.Conn, idx int) {
	tc := tls.Server(conn, e.cfg)
	if err := tc.Handshake(); err != nil {
		conn.Close()
		return
	}
	d := &simnet.Dialer{Net: e.c.Net, LocalIP: "10.0.0.8", Tag: "edge-origin"}
	origin, err := d.Dial("tcp", srvAddr)
	if err != nil {
		tc.Close()
		return
	}
	simsync.Go("h:edge-down", func() {
		io.Copy(tc, origin)
		tc.Close()
		origin.Close()
	})
	buf := make([]byte, 32768)
	for {
		n, err := tc.Read(buf)
		if n > 0 {
			if len(e.Plain[idx]) < 4096 {
				e.Plain[idx] = append(e.Plain[idx], buf[:n]...)
			}
			if _, werr := origin.Write(buf[:n]); werr != nil {
				break
			}
		}
		if err != nil {
			break
		}
	}
	origin.Close()
	tc.Close()
}

// startUpstream runs the harness proxy protocol (see upstreamApp) on a listener.
func startUpstream(l *simnet.Listener, upRecv []int64, onConn func()) {
	simsync.Go("h:upstream", func() {
		for {
			uc, err := l.Accept()
			if err != nil {
				return
			}
			if onConn != nil {
				onConn()
			}
			simsync.Go("h:upstream-conn", func() { upstreamApp(uc, upRecv) })
		}
	})
}
