package verifsim

import (
	"encoding/binary"
	"fmt"
	"io"
	"sort"

	"github.com/cbeuw/Cloak/internal/common"
	mux "github.com/cbeuw/Cloak/internal/multiplex"
	"github.com/cbeuw/Cloak/internal/simsync"
	"github.com/cbeuw/Cloak/verifsim/simnet"
)

// ---- C13: unique, gap-free sequence numbers in write order ----
//
// Several tasks Write / ReadFrom / Close the same stream concurrently. Every
// write op carries a self-describing header so that the byte stream a sender
// put on the wire (decoded from the tap by refcodec, in sequence order) can
// be parsed back into whole ops.

type C13Writer struct {
	Side     int   `json:"side"` // 0 client, 1 server
	Stream   int   `json:"stream"`
	Ops      []int `json:"ops"`                 // lengths (>= opHdr)
	ReadFrom bool  `json:"read_from,omitempty"` // ops go through a local datagram link + common.Copy -> Stream.ReadFrom
}

type C13Scenario struct {
	Sess     SessParams  `json:"sess"`
	PatKey   uint64      `json:"pat_key"`
	NStreams int         `json:"nstreams"`
	Writers  []C13Writer `json:"writers"`
	// CloseAfter[s]: side*1000+writer index whose completion triggers Close of stream s by that side (-1: never)
	CloseAfter []int `json:"close_after"`
	// IdleClose[s]: a side (0 opener, 1 accepter) that has no writer on stream s closes
	// it while the other side's writers run (-1 / absent: nobody); the accepter
	// closing a stream it never wrote on is a server turning a request down
	IdleClose []int `json:"idle_close,omitempty"`
	ResetLink int   `json:"reset_link"` // -1 none; else link reset after ResetAtWrite writes on dir 0
	ResetAt   int   `json:"reset_at,omitempty"`
}

const opHdr = 12

func opBytes(key uint64, writer, op, n int) []byte {
	b := make([]byte, n)
	binary.BigEndian.PutUint16(b[0:], 0xC13C)
	binary.BigEndian.PutUint16(b[2:], uint16(writer))
	binary.BigEndian.PutUint32(b[4:], uint32(op))
	binary.BigEndian.PutUint32(b[8:], uint32(n))
	fillPat(b[opHdr:], key, uint32(writer)<<16|uint32(op), 3, 0)
	return b
}

type opRec struct {
	writer, op, n     int
	startStep         int
	doneStep          int // step at which the call returned (0: still running)
	err               error
	firstSeq, lastSeq uint64
	seen              bool
}

func genC13(g *Gen) any {
	sc := &C13Scenario{PatKey: g.Rng.Uint64(), ResetLink: -1}
	sc.Sess = SessParams{Method: byte(g.Int(0, 3)), NConn: g.Int(1, 4), InactS: 3600, Partial: g.Bool(0.3)}
	sc.Sess.WireLimit = g.Pick(minWireLimit, minWireLimit, 700, 1200, 16401, 0)
	// datagram (UDP) mode: the sender side numbers its frames the same way
	sc.Sess.Unordered = g.Bool(0.2)
	limit := sc.Sess.WireLimit
	if limit == 0 {
		limit = 16640
	}
	maxPayload := limit - 14 - 255
	sc.NStreams = g.Int(1, 3)
	for s := 0; s < sc.NStreams; s++ {
		for side := 0; side < 2; side++ {
			k := g.Int(1, 4)
			if side == 1 && g.Bool(0.4) {
				k = 0
			}
			for i := 0; i < k; i++ {
				w := C13Writer{Side: side, Stream: s, ReadFrom: g.Bool(0.3)}
				nops := g.Int(1, 6)
				for j := 0; j < nops; j++ {
					n := g.Pick(opHdr, opHdr+1, 40, maxPayload-1, maxPayload, maxPayload+1, 2*maxPayload+5, g.Int(opHdr, 3*maxPayload))
					if (w.ReadFrom || sc.Sess.Unordered) && n > maxPayload {
						n = maxPayload // one Read = one frame; a datagram is never split
					}
					if n < opHdr {
						n = opHdr
					}
					w.Ops = append(w.Ops, n)
				}
				sc.Writers = append(sc.Writers, w)
			}
		}
		ca := -1
		if g.Bool(0.5) {
			// pick a writer of this stream whose completion triggers the close
			var cands []int
			for i, w := range sc.Writers {
				if w.Stream == s {
					cands = append(cands, i)
				}
			}
			if len(cands) > 0 {
				ca = cands[g.Rng.IntN(len(cands))]
			}
		}
		sc.CloseAfter = append(sc.CloseAfter, ca)
		ic := -1
		if ca < 0 && g.Bool(0.3) {
			has := [2]bool{}
			for _, w := range sc.Writers {
				if w.Stream == s {
					has[w.Side&1] = true
				}
			}
			if side := g.Pick(1, 1, 0); !has[side] {
				ic = side
			}
		}
		sc.IdleClose = append(sc.IdleClose, ic)
	}
	if g.Bool(0.15) {
		sc.ResetLink = g.Int(0, sc.Sess.NConn-1)
		sc.ResetAt = g.Int(1, 12)
	}
	return sc
}

func runC13(c *Ctx, scAny any) {
	sc := scAny.(*C13Scenario)
	c.Net.TapOn = true
	sw := NewSessWorld(c, sc.Sess, nil, nil)
	if sc.ResetLink >= 0 && sc.ResetLink < len(sw.Links) {
		sw.Links[sc.ResetLink].Script = append(sw.Links[sc.ResetLink].Script, scriptedReset(sc.ResetAt))
	}
	// streams: the client opens NStreams streams, announcing each with a 4-byte
	// tag frame; the server maps accepted streams by tag
	cs := make([]*mux.Stream, sc.NStreams)
	ss := make([]*mux.Stream, sc.NStreams)
	ids := make([]uint32, sc.NStreams)
	ready := 0
	for s := 0; s < sc.NStreams; s++ {
		st, err := sw.C.OpenStream()
		if err != nil {
			c.Fail("setup", "error:open", "OpenStream: %v", err)
			return
		}
		cs[s] = st
		ids[s] = st.VerifID()
	}
	simsync.Go("h:announce", func() {
		for s := 0; s < sc.NStreams; s++ {
			if _, err := cs[s].Write([]byte{0xA0, byte(s)}); err != nil {
				return
			}
		}
	})
	simsync.Go("h:accept", func() {
		for ready < sc.NStreams {
			conn, err := sw.S.Accept()
			if err != nil {
				return
			}
			b := make([]byte, 2)
			if _, err := io.ReadFull(conn, b); err != nil {
				return
			}
			ss[b[1]] = conn.(*mux.Stream)
			ready++
		}
	})
	c.Drive(func() bool { return ready == sc.NStreams })
	if c.Failed() || ready < sc.NStreams {
		if !c.Failed() && sc.ResetLink < 0 {
			c.Inconclusive("streams not established")
		}
		return
	}
	ops := make([][]*opRec, len(sc.Writers))
	closeCall := map[[2]int]int{} // (stream, side) -> step at which Close was called
	closeOK := map[[2]int]bool{}  // (stream, side) -> Close returned nil
	running := 0
	for s, side := range sc.IdleClose {
		if side < 0 || s >= sc.NStreams {
			continue
		}
		s, side := s, side
		stream := cs[s]
		if side == 1 {
			stream = ss[s]
		}
		running++
		simsync.Go("h:idle-closer", func() {
			defer func() { running-- }()
			closeCall[[2]int{s, side}] = c.W.Steps
			closeOK[[2]int{s, side}] = stream.Close() == nil
		})
	}
	for wi, w := range sc.Writers {
		wi, w := wi, w
		stream := cs[w.Stream]
		if w.Side == 1 {
			stream = ss[w.Stream]
		}
		running++
		simsync.Go("h:writer", func() {
			defer func() { running-- }()
			var out io.Writer = stream
			if w.ReadFrom {
				a, b := c.Net.PacketPipe("local")
				simsync.Go("h:copy", func() { common.Copy(stream, b) })
				out = a
			}
			for j, n := range w.Ops {
				r := &opRec{writer: wi, op: j, n: n, startStep: c.W.Steps}
				ops[wi] = append(ops[wi], r)
				_, err := out.Write(opBytes(sc.PatKey, wi, j, n))
				r.err = err
				r.doneStep = c.W.Steps
				if err != nil {
					return
				}
			}
			if w.Stream < len(sc.CloseAfter) && sc.CloseAfter[w.Stream] == wi {
				closeCall[[2]int{w.Stream, w.Side}] = c.W.Steps
				closeOK[[2]int{w.Stream, w.Side}] = stream.Close() == nil
			}
		})
	}
	// drain both sides so that the run resembles real use
	for s := 0; s < sc.NStreams; s++ {
		for _, st := range []*mux.Stream{cs[s], ss[s]} {
			st := st
			simsync.Go("h:drain", func() {
				buf := make([]byte, 4096)
				for {
					if _, err := st.Read(buf); err != nil {
						return
					}
				}
			})
		}
	}
	end := c.Drive(func() bool { return running == 0 && c.Net.Idle() })
	if c.Failed() {
		return
	}
	if end == simsync.EndQuiescent && running > 0 && sc.ResetLink < 0 {
		c.Fail("write-liveness", "stuck", "writers still blocked at final quiescence\n%s", c.W.DumpTasks())
		return
	}
	checkC13Tap(c, sc, sw, ids, ops, closeCall, closeOK)
}

func scriptedReset(afterWrites int) simnet.ScriptedFault {
	return simnet.ScriptedFault{Dir: 0, AfterWrite: afterWrites, Kind: "reset"}
}

type tapFrame struct {
	f    RefFrame
	link int
	step int
}

func checkC13Tap(c *Ctx, sc *C13Scenario, sw *SessWorld, ids []uint32, ops [][]*opRec, closeCall map[[2]int]int, closeOK map[[2]int]bool) {
	codec, err := NewRefCodec(sc.Sess.Method, sw.Key)
	if err != nil {
		panic(err)
	}
	faulty := sc.ResetLink >= 0
	for side := 0; side < 2; side++ {
		// every record this side put on the wire, on all links
		byStream := map[uint32][]tapFrame{}
		seen := map[[2]uint64]bool{}
		for li, l := range sw.Links {
			p := l.Dir[side]
			recs, hdrs, rest := splitRecords(p.TapBuf)
			if rest != 0 {
				c.Fail("wire-format", "tap:partial-record", "link %d dir %d: %d trailing bytes do not form a record", li, side, rest)
				return
			}
			for i, r := range recs {
				if hdrs[i][0] != 23 {
					c.Fail("wire-format", "tap:record-type", "link %d dir %d: record type %d", li, side, hdrs[i][0])
					return
				}
				fr, err := codec.Decode(r)
				if err != nil {
					c.Fail("wire-format", "tap:undecodable", "link %d dir %d record %d (%d bytes): reference codec cannot decode what the sender emitted: %v", li, side, i, len(r), err)
					return
				}
				key := [2]uint64{uint64(fr.StreamID), fr.Seq}
				if seen[key] {
					c.Fail("seq-unique", "seq:reused", "side %d sent two messages with stream id %d and sequence number %d under one session key (nonce reuse)", side, fr.StreamID, fr.Seq)
					return
				}
				seen[key] = true
				byStream[fr.StreamID] = append(byStream[fr.StreamID], tapFrame{f: fr, link: li})
			}
		}
		for s := 0; s < sc.NStreams; s++ {
			frames := byStream[ids[s]]
			sort.Slice(frames, func(i, j int) bool { return frames[i].f.Seq < frames[j].f.Seq })
			// gap-free from 0
			for i, tf := range frames {
				if tf.f.Seq != uint64(i) && !faulty {
					c.Fail("seq-gapfree", "seq:gap", "side %d stream %d: sequence numbers on the wire are not 0,1,2,...: position %d carries %d (no send failed)", side, s, i, tf.f.Seq)
					return
				}
			}
			if faulty {
				continue // content attribution needs a complete stream
			}
			// concatenate data payloads in sequence order and parse whole ops
			var data []byte
			var bounds []int // end offset of each frame in data
			var seqOf []uint64
			closingSeq := int64(-1)
			for _, tf := range frames {
				if closingSeq >= 0 {
					// A ReadFrom that passed its closed-check before Close ran sends
					// its chunk afterwards, with a later number (the frame is even
					// still flagged closing). The receiver ignores it and the property
					// only speaks about writes completed before the close: not demanded.
					c.Probe("frame_after_closing_frame")
					continue
				}
				if tf.f.Closing != 0 {
					closingSeq = int64(tf.f.Seq)
					continue
				}
				data = append(data, tf.f.Payload...)
				bounds = append(bounds, len(data))
				seqOf = append(seqOf, tf.f.Seq)
			}
			if side == 0 {
				// skip the announce frame
				if len(data) < 2 || data[0] != 0xA0 {
					c.Fail("write-order", "order:announce", "side 0 stream %d does not start with the announce bytes", s)
					return
				}
				data = data[2:]
				for i := range bounds {
					bounds[i] -= 2
				}
			}
			frameAt := func(off int) uint64 { // seq of the frame holding byte off
				i := sort.SearchInts(bounds, off+1)
				return seqOf[i]
			}
			nextOp := map[int]int{}
			off := 0
			for off < len(data) {
				if len(data)-off < opHdr || binary.BigEndian.Uint16(data[off:]) != 0xC13C {
					c.Fail("write-order", "order:interleaved", "side %d stream %d: byte %d of the wire stream is not the start of a write (writes interleaved or bytes lost)", side, s, off)
					return
				}
				wi := int(binary.BigEndian.Uint16(data[off+2:]))
				j := int(binary.BigEndian.Uint32(data[off+4:]))
				n := int(binary.BigEndian.Uint32(data[off+8:]))
				if wi >= len(ops) || j >= len(ops[wi]) || sc.Writers[wi].Side != side || sc.Writers[wi].Stream != s || ops[wi][j].n != n {
					c.Fail("write-order", "order:foreign", "side %d stream %d: op header (writer %d op %d len %d) at byte %d does not belong here", side, s, wi, j, n, off)
					return
				}
				if off+n > len(data) {
					if ops[wi][j].err == nil && ops[wi][j].doneStep > 0 {
						c.Fail("write-order", "order:truncated", "side %d stream %d: accepted write (writer %d op %d, %d bytes) is cut short on the wire", side, s, wi, j, n)
						return
					}
					break
				}
				want := opBytes(sc.PatKey, wi, j, n)
				for k := opHdr; k < n; k++ {
					if data[off+k] != want[k] {
						c.Fail("write-order", "order:interleaved", "side %d stream %d: write (writer %d op %d) is not contiguous on the wire: byte %d differs", side, s, wi, j, k)
						return
					}
				}
				if j != nextOp[wi] {
					c.Fail("write-order", "order:reordered", "side %d stream %d: writer %d's op %d appears where op %d was expected", side, s, wi, j, nextOp[wi])
					return
				}
				nextOp[wi] = j + 1
				r := ops[wi][j]
				r.seen = true
				r.firstSeq, r.lastSeq = frameAt(off), frameAt(off+n-1)
				off += n
			}
			// every accepted op must be on the wire
			for wi, w := range sc.Writers {
				if w.Side != side || w.Stream != s {
					continue
				}
				for _, r := range ops[wi] {
					if r.err == nil && r.doneStep > 0 && !r.seen && !(w.ReadFrom) {
						c.Fail("write-order", "order:lost", "side %d stream %d: write (writer %d op %d) returned success but is not on the wire", side, s, wi, r.op)
						return
					}
					if cs, ok := closeCall[[2]int{s, side}]; ok && r.seen && r.err == nil && r.doneStep > 0 && r.doneStep <= cs && !w.ReadFrom {
						if closingSeq < 0 {
							c.Fail("seq-close", "close:missing", "side %d stream %d: Close was called but no closing frame is on the wire", side, s)
							return
						}
						if int64(r.lastSeq) >= closingSeq {
							c.Fail("seq-close", "close:early-number", "side %d stream %d: closing frame has number %d but write (writer %d op %d), completed before Close was called, used %d", side, s, closingSeq, wi, r.op, r.lastSeq)
							return
						}
					}
				}
			}
			if closeOK[[2]int{s, side}] && closingSeq < 0 {
				// a Close that reported success (it was not beaten by the peer's close, and
				// no send failed in this run) has put its closing frame on the wire
				c.Fail("seq-close", "close:missing", "side %d stream %d: Close returned nil but no closing frame is on the wire (%d frames of that stream were sent before)", side, s, len(frames))
				return
			}
			if closingSeq >= 0 {
				c.Probe("closing_frame_checked")
			}
		}
	}
	_ = fmt.Sprint
}

func init() {
	register(&Family{
		Name:  "c13-writers",
		Count: func(tier string) int { return map[string]int{"quick": 4000, "thorough": 120000}[tier] },
		Gen:   genC13,
		New:   func() any { return &C13Scenario{} },
		Run:   runC13,
		Policy: func(g *Gen) simsync.PolicyConfig {
			p := SwarmPolicy(g)
			p.Stall = 0
			return p
		},
	})
	plans["C13"] = []string{"c13-writers"}
}
