package verifsim

import (
	"encoding/binary"
	"fmt"
	"net"
	"strings"
	"time"

	"github.com/cbeuw/Cloak/internal/server"
	"github.com/cbeuw/Cloak/internal/simsync"
)

// ---- C14, whole system: the client's UDP router (RouteUDP) ----
//
// W-full with an unordered session: several local UDP applications (distinct
// source addresses on one simulated local socket) talk through the real
// client.RouteUDP, the real server and a datagram upstream that answers every
// request with 0..3 replies. RouteUDP takes a *net.UDPConn in the shipped
// code; the instrumented copy declares the same parameters as net.PacketConn
// (tools/instrument: "type seam"), nothing else differs.
//
// Oracle: every datagram an application receives is one the upstream sent on
// that application's own flow, whole and unmodified, at most once; on the
// upstream side each relayed flow carries the datagrams of exactly one
// application, each whole; on a healthy session every request and every reply
// arrives.

type C14UDPSend struct {
	Size      int `json:"size"`       // request size (>= udpHdr)
	Replies   int `json:"replies"`    // replies the upstream sends for it
	ReplySize int `json:"reply_size"` // size of each reply (>= udpHdr)
	GapMS     int `json:"gap_ms"`     // virtual pause before sending
}

type C14UDPScenario struct {
	Client  ClientParams   `json:"client"`
	Sources [][]C14UDPSend `json:"sources"`
	PatKey  uint64         `json:"pat_key"`
	// EmptyTail: once a flow has answered all of its application's requests the
	// upstream sends one empty datagram on it (legal UDP, not carriable by a
	// Cloak frame): whatever the relay makes of it, nothing malformed may reach
	// the wire (C10: no zero-length record)
	EmptyTail bool `json:"empty_tail,omitempty"`
	// OtherHosts: the applications sit on different hosts and all use the same
	// source port (ck-client bound to a LAN address), instead of one host and
	// different ports
	OtherHosts bool   `json:"other_hosts,omitempty"`
	Partial    bool   `json:"partial"`
	Seed       uint64 `json:"seed"`
}

const udpHdr = 14

func genC14UDP(g *Gen) any {
	sc := &C14UDPScenario{PatKey: g.Rng.Uint64(), Seed: g.Rng.Uint64(), Partial: g.Bool(0.4)}
	sc.Client = ClientParams{Method: "udpproxy", Encryption: []string{"plain", "aes-gcm", "aes-128-gcm", "chacha20-poly1305"}[g.Rng.IntN(4)],
		Browser: []string{"chrome", "firefox", "safari"}[g.Rng.IntN(3)], Transport: []string{"direct", "direct", "direct", "CDN"}[g.Rng.IntN(4)],
		ServerName: "www.bing.com", NumConn: g.Pick(1, 1, 2, 4, 0), UDP: true}
	ns := g.Int(1, 5)
	for s := 0; s < ns; s++ {
		var sends []C14UDPSend
		k := g.Int(1, 6)
		for i := 0; i < k; i++ {
			sends = append(sends, C14UDPSend{Size: g.Pick(udpHdr, udpHdr+1, 100, 512, 1400, g.Int(udpHdr, 4000)), Replies: g.Pick(0, 1, 1, 2, 3),
				ReplySize: g.Pick(udpHdr, 64, 512, 1400, g.Int(udpHdr, 4000)), GapMS: g.Pick(0, 0, 0, 1, 50)})
		}
		sc.Sources = append(sc.Sources, sends)
	}
	sc.EmptyTail = sc.Seed%3 == 0
	sc.OtherHosts = (sc.Seed>>8)%3 == 0
	return sc
}

// datagram: magic(2) source(2) index(2) replyNo(2; 0xffff for a request) replies(2) replySize(4)... pattern
func udpDatagram(key uint64, src, idx, replyNo, replies, replySize, size int) []byte {
	b := make([]byte, size)
	binary.BigEndian.PutUint16(b, 0xC14D)
	binary.BigEndian.PutUint16(b[2:], uint16(src))
	binary.BigEndian.PutUint16(b[4:], uint16(idx))
	binary.BigEndian.PutUint16(b[6:], uint16(replyNo))
	binary.BigEndian.PutUint16(b[8:], uint16(replies))
	binary.BigEndian.PutUint32(b[10:], uint32(replySize))
	fillPat(b[udpHdr:], key, uint32(src)<<20|uint32(idx)<<8|uint32(replyNo&0xff), 7, 0)
	return b
}

type udpParsed struct{ src, idx, replyNo, replies, replySize int }

func parseUDPDatagram(key uint64, b []byte) (p udpParsed, problem string) {
	if len(b) < udpHdr || binary.BigEndian.Uint16(b) != 0xC14D {
		return p, fmt.Sprintf("%d bytes that are no datagram of this workload (%x...)", len(b), b[:min(len(b), 16)])
	}
	p = udpParsed{int(binary.BigEndian.Uint16(b[2:])), int(binary.BigEndian.Uint16(b[4:])), int(binary.BigEndian.Uint16(b[6:])), int(binary.BigEndian.Uint16(b[8:])), int(binary.BigEndian.Uint32(b[10:]))}
	if i := checkPat(b[udpHdr:], key, uint32(p.src)<<20|uint32(p.idx)<<8|uint32(p.replyNo&0xff), 7, 0); i >= 0 {
		return p, fmt.Sprintf("datagram (application %d, request %d, reply %d, %d bytes) altered from byte %d on", p.src, p.idx, int16(p.replyNo), len(b), udpHdr+i)
	}
	return p, ""
}

func runC14UDP(c *Ctx, scAny any) {
	sc := scAny.(*C14UDPScenario)
	c.Net.DefaultPartial = sc.Partial
	c.Net.TapOn = true
	cp := sc.Client
	w := NewSrvWorld(c, SrvParams{NBypass: 1, ProxyBook: map[string][]string{"udpproxy": {"udp", "10.0.0.3:5353"}}})
	defer w.Cleanup()
	cp.UID = w.Bypass[0]
	NewEdgeStub(c)
	simsync.Go("h:serve", func() { server.Serve(w.Front, w.Sta) })
	simsync.Go("h:target", func() {
		for {
			tc, err := w.Redir.Accept()
			if err != nil {
				return
			}
			tc.Close()
		}
	})
	key := sc.PatKey
	fail := func(sig, format string, a ...any) { c.Fail("datagrams", sig, format, a...) }
	// expected requests per application
	wantReq := 0
	wantRep := 0
	for _, sends := range sc.Sources {
		wantReq += len(sends)
		for _, s := range sends {
			wantRep += s.Replies
		}
	}
	gotReq := 0
	seenReq := map[[2]int]bool{}
	// the datagram upstream: one relayed flow per accepted link
	simsync.Go("h:upstream", func() {
		for {
			uc, err := w.Upstream["udpproxy"].Accept()
			if err != nil {
				return
			}
			simsync.Go("h:upstream-flow", func() {
				defer uc.Close()
				owner := -1
				flowReqs := 0
				buf := make([]byte, 65536)
				for {
					n, err := uc.Read(buf)
					if err != nil {
						return
					}
					p, problem := parseUDPDatagram(key, buf[:n])
					if problem != "" {
						fail("upstream:altered", "the upstream received %s", problem)
						return
					}
					if p.replyNo != 0xffff || p.src >= len(sc.Sources) || p.idx >= len(sc.Sources[p.src]) {
						fail("upstream:foreign", "the upstream received a datagram nobody sent as a request: %+v", p)
						return
					}
					want := sc.Sources[p.src][p.idx]
					if n != want.Size {
						fail("upstream:boundary", "request %d of application %d was sent as one datagram of %d bytes and arrived as one of %d", p.idx, p.src, want.Size, n)
						return
					}
					if owner >= 0 && owner != p.src {
						fail("upstream:mixed-flows", "one relayed flow carried requests of application %d and of application %d", owner, p.src)
						return
					}
					owner = p.src
					if seenReq[[2]int{p.src, p.idx}] {
						fail("upstream:duplicate", "request %d of application %d arrived twice", p.idx, p.src)
						return
					}
					seenReq[[2]int{p.src, p.idx}] = true
					gotReq++
					flowReqs++
					for r := 0; r < want.Replies; r++ {
						if _, err := uc.Write(udpDatagram(key, p.src, p.idx, r, 0, 0, want.ReplySize)); err != nil {
							return
						}
					}
					if sc.EmptyTail && flowReqs == len(sc.Sources[p.src]) {
						uc.Write([]byte{})
					}
				}
			})
		}
	})
	// the shipped ck-client main(): configuration file -> ProcessRawConfig ->
	// dialer, session maker -> RouteUDP on the (simulated) local UDP socket
	prog := w.StartCkClient(c, cp)
	gotRep := 0
	for s, sends := range sc.Sources {
		s, sends := s, sends
		// local applications of one host: same address, different ports
		addr := &net.UDPAddr{IP: net.IPv4(10, 0, 7, 10), Port: 5000 + s}
		if sc.OtherHosts {
			addr = &net.UDPAddr{IP: net.IPv4(10, 0, 7, byte(10+s)), Port: 5000}
		}
		simsync.Go("h:udp-app-send", func() {
			prog.AwaitReady()
			if prog.Sock == nil {
				return
			}
			for i, sd := range sends {
				if sd.GapMS > 0 {
					Sleep(time.Duration(sd.GapMS) * time.Millisecond)
				}
				prog.Sock.Inject(addr, udpDatagram(key, s, i, 0xffff, sd.Replies, sd.ReplySize, sd.Size))
			}
		})
		simsync.Go("h:udp-app-recv", func() {
			seen := map[[2]int]bool{}
			prog.AwaitReady()
			if prog.Sock == nil {
				return
			}
			for {
				b, ok := prog.Sock.Recv(addr)
				if !ok {
					return
				}
				p, problem := parseUDPDatagram(key, b)
				if problem != "" {
					fail("app:altered", "application %d received %s", s, problem)
					return
				}
				if p.src != s {
					fail("app:foreign", "application %d received a reply that belongs to application %d (request %d, reply %d, %d bytes)", s, p.src, p.idx, p.replyNo, len(b))
					return
				}
				if p.idx >= len(sends) || p.replyNo >= sends[p.idx].Replies {
					fail("app:unsent", "application %d received a datagram the upstream never sent: %+v", s, p)
					return
				}
				if len(b) != sends[p.idx].ReplySize {
					fail("app:boundary", "reply %d to request %d of application %d was sent as one datagram of %d bytes and arrived as one of %d", p.replyNo, p.idx, s, sends[p.idx].ReplySize, len(b))
					return
				}
				if seen[[2]int{p.idx, p.replyNo}] {
					fail("app:duplicate", "application %d received reply %d to request %d twice", s, p.replyNo, p.idx)
					return
				}
				seen[[2]int{p.idx, p.replyNo}] = true
				gotRep++
			}
		})
	}
	end := c.Drive(func() bool { return gotReq == wantReq && gotRep == wantRep })
	if c.Failed() {
		return
	}
	if sc.EmptyTail && end == simsync.EndQuiescent {
		// the empty datagram ends its relayed flow (a Cloak frame cannot carry
		// it); in datagram mode the stream's end may overtake the last replies on
		// another connection, so completeness is not demanded here
		end = simsync.EndDone
	}
	if end == simsync.EndQuiescent && (gotReq < wantReq || gotRep < wantRep) {
		fail("lost", "healthy unordered session, everything quiescent: %d of %d requests reached the upstream, %d of %d replies reached the applications (ck-client exit: %q)\n%s", gotReq, wantReq, gotRep, wantRep, prog.Exit, c.W.DumpTasks())
		return
	}
	if end == simsync.EndDone {
		c.Probe(fmt.Sprintf("udp_sources_%d", len(sc.Sources)))
		if sc.EmptyTail {
			// let the empty datagrams travel, then look at the wire
			c.Drive(func() bool { return false })
			if c.Failed() {
				return
			}
		}
		if !strings.EqualFold(cp.Transport, "cdn") {
			for _, l := range frontLinks(c) {
				if msg := checkDirectWire(l, nil, cp, w); msg != "" {
					sig := msg[:strings.Index(msg, "|")]
					c.Fail("wire", sig, "%s", msg[len(sig)+1:])
					return
				}
			}
		}
	}
}

func init() {
	register(&Family{Name: "c14-routeudp", Count: func(tier string) int { return map[string]int{"quick": 800, "thorough": 40000}[tier] },
		Gen: genC14UDP, New: func() any { return &C14UDPScenario{} }, Run: runC14UDP, VirtCap: 10 * time.Minute,
		Policy: func(g *Gen) simsync.PolicyConfig {
			p := SwarmPolicy(g)
			p.Stall = 0
			return p
		}})
	plans["C14"] = append(plans["C14"], "c14-routeudp")
	// C10: the tapped wire of UDP-mode sessions is held to the same record shape
	plans["C10"] = append(plans["C10"], "c14-routeudp")
}
