package verifsim

import (
	"bufio"
	"encoding/binary"
	"fmt"
	"net"
	"net/http"
	"net/url"
	"sort"
	"time"

	"github.com/gorilla/websocket"

	"github.com/cbeuw/Cloak/internal/common"
	mux "github.com/cbeuw/Cloak/internal/multiplex"
	"github.com/cbeuw/Cloak/internal/simsync"
	"github.com/cbeuw/Cloak/verifsim/simnet"
)

// SessParams configures a W-sess world: two real mux.Sessions wired by NConn
// TLSConn-wrapped simulated connections.
type SessParams struct {
	Method     byte `json:"method"`
	NConn      int  `json:"nconn"`
	Unordered  bool `json:"unordered,omitempty"`
	Singleplex bool `json:"singleplex,omitempty"`
	WireLimit  int  `json:"wire_limit,omitempty"`
	InactS     int  `json:"inactivity_s,omitempty"`
	// LateConns: connections 1..NConn-1 are added to the accepting side by
	// separate tasks while traffic flows (as dispatchConnection does)
	LateConns bool `json:"late_conns,omitempty"`
	// LateAfter[i-1]: connection i joins the accepting side only once the
	// accepting side's workload has read that many bytes in total (0: at once)
	LateAfter []int `json:"late_after,omitempty"`
	// per-link delivery weights (slow connections); empty = all 1
	Weights []float64 `json:"weights,omitempty"`
	Partial bool      `json:"partial,omitempty"`
	// stalls: link index, direction, after n writes, duration ms
	Stalls []StallPlan `json:"stalls,omitempty"`
	// Window > 0: every connection has that send window (bytes outstanding before
	// a write blocks): a writer only gets on while the peer's read loop consumes
	Window int `json:"window,omitempty"`
	// DarkLink > 0: connection DarkLink-1 is a dead path from the start, silently
	// and in both directions, for DarkMS of virtual time (simnet.Blackhole)
	// WS: the connections are common.WebSocketConn (the CDN transport's wrapper: a
	// real gorilla client and upgrader over each simulated link) instead of TLSConn
	WS       bool `json:"ws,omitempty"`
	DarkLink int  `json:"dark_link,omitempty"`
	DarkMS   int  `json:"dark_ms,omitempty"`
}

// wsPair upgrades a simulated link to a pair of real WebSocket connections.
func wsPair(c *Ctx, a, b net.Conn) (cl, sv net.Conn) {
	hs := 0
	simsync.Go("h:ws-upgrade", func() {
		br := bufio.NewReader(b)
		req, err := http.ReadRequest(br)
		if err != nil {
			return
		}
		up := websocket.Upgrader{ReadBufferSize: 16480, WriteBufferSize: 16480}
		conn, err := up.Upgrade(&hijackRW{b, bufio.NewReadWriter(br, bufio.NewWriter(b)), http.Header{}}, req, nil)
		if err != nil {
			return
		}
		sv = &common.WebSocketConn{Conn: conn}
		hs++
	})
	simsync.Go("h:ws-dial", func() {
		u, _ := url.Parse("ws://cdn.example.com/path")
		conn, _, err := websocket.NewClient(a, u, http.Header{}, 16480, 16480)
		if err != nil {
			return
		}
		cl = &common.WebSocketConn{Conn: conn}
		hs++
	})
	c.Drive(func() bool { return hs == 2 })
	if hs != 2 {
		return nil, nil
	}
	return cl, sv
}

type StallPlan struct {
	Link  int `json:"link"`
	Dir   int `json:"dir"`
	DurMS int `json:"dur_ms"`
}

type SessWorld struct {
	C, S  *mux.Session
	Key   [32]byte
	Links []*simnet.Link
	P     SessParams
	late  []lateConn
}

type lateConn struct {
	after int
	conn  net.Conn
	go_   chan struct{}
}

// Progress tells the world how many bytes the accepting side has read so far;
// connections whose threshold is reached join the accepting session, each
// from its own task (as dispatchConnection does). A connection also joins
// when traffic is stuck without it (its task wakes up after a virtual
// millisecond, and virtual time only passes when nothing else can run), so a
// late connection is never a missing one.
func (sw *SessWorld) Progress(total int) {
	for len(sw.late) > 0 && sw.late[0].after <= total {
		close(sw.late[0].go_)
		sw.late = sw.late[1:]
	}
}

func (sw *SessWorld) startAdder(lc lateConn, i int) {
	simsync.Go("h:adder", func() {
		select {
		case <-lc.go_:
		case <-time.After(time.Duration(i+1) * time.Millisecond):
		}
		simsync.Yield("h:woke")
		sw.S.AddConnection(lc.conn)
	})
}

var methodNames = map[byte]string{0: "plain", 1: "aes-256-gcm", 2: "chacha20-poly1305", 3: "aes-128-gcm"}

func NewSessWorld(c *Ctx, p SessParams, cValve, sValve mux.Valve) *SessWorld {
	sw := &SessWorld{P: p}
	for i := range sw.Key {
		sw.Key[i] = byte(c.Rng.Uint32())
	}
	// Singleplex is a client-side setting (ck-client with NumConn=0); ck-server
	// never sets it: its end is an ordinary multiplexed session
	mk := func(v mux.Valve, singleplex bool) *mux.Session {
		obf, err := mux.MakeObfuscator(p.Method, sw.Key)
		if err != nil {
			panic(err)
		}
		cfg := mux.SessionConfig{Obfuscator: obf, Valve: v, Unordered: p.Unordered, Singleplex: singleplex,
			MsgOnWireSizeLimit: p.WireLimit, InactivityTimeout: time.Duration(p.InactS) * time.Second}
		return mux.MakeSession(7, cfg)
	}
	sw.C = mk(cValve, p.Singleplex)
	sw.S = mk(sValve, false)
	c.Net.DefaultPartial = p.Partial
	if p.Window > 0 {
		c.Net.SendWindow = p.Window
	}
	n := p.NConn
	if n < 1 {
		n = 1
	}
	var sEnds []net.Conn
	for i := 0; i < n; i++ {
		a, b := c.Net.Pipe(fmt.Sprintf("mux%d", i))
		l := a.Link()
		if i < len(p.Weights) && p.Weights[i] > 0 {
			l.Dir[0].Weight, l.Dir[1].Weight = p.Weights[i], p.Weights[i]
		}
		sw.Links = append(sw.Links, l)
		if p.WS {
			cl, sv := wsPair(c, a, b)
			if cl == nil {
				panic("websocket handshake over a simulated link failed")
			}
			sw.C.AddConnection(cl)
			sEnds = append(sEnds, sv)
			continue
		}
		sw.C.AddConnection(common.NewTLSConn(a))
		sEnds = append(sEnds, common.NewTLSConn(b))
	}
	if p.DarkLink > 0 && p.DarkLink <= len(sw.Links) {
		c.Net.Blackhole(sw.Links[p.DarkLink-1], time.Duration(p.DarkMS)*time.Millisecond)
	}
	for _, st := range p.Stalls {
		if st.Link < len(sw.Links) {
			c.Net.Stall(sw.Links[st.Link].Dir[st.Dir&1], time.Duration(st.DurMS)*time.Millisecond)
		}
	}
	sw.S.AddConnection(sEnds[0])
	for i := 1; i < n; i++ {
		e := sEnds[i]
		if p.LateConns {
			after := 0
			if i-1 < len(p.LateAfter) {
				after = p.LateAfter[i-1]
			}
			lc := lateConn{after, e, make(chan struct{})}
			sw.late = append(sw.late, lc)
			sw.startAdder(lc, i)
		} else {
			sw.S.AddConnection(e)
		}
	}
	sort.SliceStable(sw.late, func(i, j int) bool { return sw.late[i].after < sw.late[j].after })
	sw.Progress(0)
	return sw
}

// ---- self-describing payloads ----

// pat is the expected byte at offset off of direction dir of stream tag.
func pat(key uint64, tag uint32, dir int, off int) byte {
	x := key ^ uint64(tag)<<33 ^ uint64(dir)<<32 ^ uint64(off>>3)
	x ^= x >> 33
	x *= 0xff51afd7ed558ccd
	x ^= x >> 33
	x *= 0xc4ceb9fe1a85ec53
	x ^= x >> 33
	return byte(x >> (8 * uint(off&7)))
}

func fillPat(b []byte, key uint64, tag uint32, dir int, off int) {
	for i := range b {
		b[i] = pat(key, tag, dir, off+i)
	}
}

// checkPat verifies b against the pattern; returns the index of the first
// mismatch or -1.
func checkPat(b []byte, key uint64, tag uint32, dir int, off int) int {
	for i := range b {
		if b[i] != pat(key, tag, dir, off+i) {
			return i
		}
	}
	return -1
}

const tagLen = 8

func putTag(tag uint32) []byte {
	b := make([]byte, tagLen)
	binary.BigEndian.PutUint32(b, 0x7a67a67a)
	binary.BigEndian.PutUint32(b[4:], tag)
	return b
}

func getTag(b []byte) (uint32, bool) {
	if binary.BigEndian.Uint32(b) != 0x7a67a67a {
		return 0, false
	}
	return binary.BigEndian.Uint32(b[4:]), true
}

// sizeSeq yields the write sizes of a plan: classes around the frame limit
// and random ones.
type sizeSeq struct {
	class int
	limit int
	x     uint64
}

func (s *sizeSeq) next() int {
	s.x = s.x*6364136223846793005 + 1442695040888963407
	r := int(s.x >> 33)
	edge := []int{1, 2, 13, s.limit - 1, s.limit, s.limit + 1, 3*s.limit + 7}
	switch s.class {
	case 0: // tiny
		return 1 + r%16
	case 1: // medium
		return 1 + r%1500
	case 2: // around the limit
		v := edge[r%len(edge)]
		if v < 1 {
			v = 1
		}
		return v
	case 3: // large multi-frame
		return 1 + r%(4*s.limit)
	default: // mixed
		if r%4 == 0 {
			v := edge[(r/4)%len(edge)]
			if v < 1 {
				v = 1
			}
			return v
		}
		return 1 + (r/4)%3000
	}
}

// minWireLimit is the smallest MsgOnWireSizeLimit the scenarios use. Cloak's
// stream- and session-closing frames carry up to 256 random bytes plus up to
// 239 bytes of padding (first five frames) plus header and tag = 525 bytes,
// whatever the limit; both shipped endpoints fix the limit at 16401, so
// smaller limits than this would only exercise a configuration nobody can
// select (closing frames failing with "obfs buffer too small").
const minWireLimit = 600
