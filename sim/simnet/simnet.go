// Package simnet is the in-memory adversarial TCP/UDP model of the simulator
// (DESIGN.md 2.5). Writes are atomic and recorded on a tap; delivery of bytes
// to the reading side, segmentation, stalls, resets and EOFs are scheduler
// decisions (simsync options) or scripted faults.
package simnet

import (
	"errors"
	"fmt"
	"io"
	"net"
	"os"
	"sort"
	"sync"
	"syscall"
	"time"

	"github.com/cbeuw/Cloak/internal/simsync"
)

type TapEvent struct {
	Step int
	At   time.Duration
	Pipe string
	Off  int64 // offset of the first byte in the pipe's byte stream
	N    int
}

type Net struct {
	mu        sync.Mutex
	W         *simsync.World
	links     []*Link
	listeners map[string]*Listener
	wseq      int64
	TapOn     bool
	LogReads  bool
	Tap       []TapEvent
	// fault counters (fired, not configured)
	Fired map[string]int
	// scenario-wide defaults for new links
	DefaultPartial bool
	// YieldOnWrite: Conn.Write is a scheduling point (a system call at which the
	// calling goroutine may be descheduled). Only for worlds in which no
	// uninstrumented library shares a real mutex across tasks around a Write.
	YieldOnWrite bool
	// FaultBudget: number of scheduler-chosen faults still allowed, by kind
	FaultBudget map[string]int
	// DialFail: number of upcoming Dial calls that fail, per address
	DialFail map[string]int
	// DialDelay: virtual time a Dial to the address takes before it connects
	DialDelay map[string]time.Duration
	// SendWindow (stream links; 0: unbounded): the bytes a writer may have
	// outstanding - written but not yet taken by the reading end - before Write
	// blocks (socket buffers plus receive window). A write that does not fit is
	// accepted in parts; a write deadline that expires while waiting returns the
	// count accepted so far and a timeout error, like a TCP socket
	SendWindow int
	// OnLink is called for every new link (to set weights, scripted faults)
	OnLink func(l *Link)
}

func New(w *simsync.World) *Net {
	n := &Net{W: w, listeners: map[string]*Listener{}, Fired: map[string]int{}, FaultBudget: map[string]int{}, DialFail: map[string]int{}, DialDelay: map[string]time.Duration{}}
	w.AddSource(n.options)
	return n
}

// Link is one simulated TCP connection (or datagram association).
type Link struct {
	ID     int
	Name   string
	Packet bool
	net    *Net
	Dir    [2]*Pipe // 0: dialer->listener, 1: listener->dialer
	Ends   [2]*Conn // 0: dialer side, 1: listener side
	// scripted faults: after the n-th Write on direction d (1-based) do kind
	Script []ScriptedFault
	Tag    string
	// KeepAlive is the dialer's KeepAlive setting (net.Dialer semantics)
	KeepAlive time.Duration
	// dark: until then the path is dead in both directions (Net.Blackhole)
	dark time.Time
}

func (l *Link) isDark() bool { return time.Now().Before(l.dark) }

// Blackhole makes the path of l silently dead for dur of virtual time (a NAT
// entry that expired, a route that went away): nothing is delivered in either
// direction and neither end learns what the other does - a FIN or the RST that
// answers a write to a closed socket do not get through either. A local Close
// still ends a blocked local Read or Write at once. Afterwards the link is an
// ordinary one again and the ends see what happened meanwhile.
func (n *Net) Blackhole(l *Link, dur time.Duration) {
	n.mu.Lock()
	until := time.Now().Add(dur)
	l.dark = until
	l.Dir[0].stalled, l.Dir[1].stalled = until, until
	n.fired("blackhole")
	n.mu.Unlock()
	time.AfterFunc(dur, func() {
		n.mu.Lock()
		for _, p := range l.Dir {
			p.rq.Wake()
			p.wq.Wake()
		}
		n.mu.Unlock()
		n.W.Ping()
	})
}

// KeepAlivePeriod models net.Dialer.KeepAlive: a negative value disables
// keep-alive probes (0 is returned), zero selects Go's default of 15 s, a
// positive value is the idle period before the first probe.
func (l *Link) KeepAlivePeriod() time.Duration {
	switch {
	case l.KeepAlive < 0:
		return 0
	case l.KeepAlive == 0:
		return 15 * time.Second
	}
	return l.KeepAlive
}

type ScriptedFault struct {
	Dir        int
	AfterWrite int   // fire right after this many writes on Dir ...
	AtByte     int64 // ... or (if AfterWrite==0) as soon as this many bytes were delivered on Dir
	// AtConsumed (if > 0, alone): as soon as the reader of Dir has taken this many bytes
	AtConsumed int64
	Kind       string // "reset", "eof0", "eof1" (FIN on direction), "close0", "close1"
	done       bool
}

type seg struct {
	b   []byte
	seq int64
}

// Pipe is one direction of a link.
type Pipe struct {
	link      *Link
	d         int
	Key       string
	optKey    string
	inflight  []seg
	delivered []byte
	pkts      [][]byte // packet mode: delivered datagrams
	fin       bool     // writer side closed or FIN injected
	rst       bool
	rq        simsync.WaitQ
	wq        simsync.WaitQ // writers waiting for room (Net.SendWindow)
	Weight    float64
	Partial   bool
	Manual    bool // delivery only through ManualDeliver (scripted segmentation)
	stalled   time.Time
	Written   int64
	Delivered int64
	Writes    int
	segSeq    int
	TapBuf    []byte // every byte ever written (if Net.TapOn)
	Bounds    []int  // write boundaries in TapBuf (end offsets)
}

type Conn struct {
	link     *Link
	side     int // 0 dialer, 1 listener
	in, out  *Pipe
	closed   bool
	rdl, wdl time.Time
	rdlTimer *time.Timer
	wdlTimer *time.Timer
	wbusy    bool
	local    net.Addr
	remote   net.Addr
	Closes   int
	// ReadCalls logs (if Net.LogReads) the virtual time of every Read call and
	// how many bytes this end had consumed before it
	ReadCalls []ReadCall
	consumed  int64
}

type ReadCall struct {
	At             time.Duration
	ConsumedBefore int64
}

var errTimeout = os.ErrDeadlineExceeded

func (n *Net) newLink(name string, packet bool, la, ra net.Addr) *Link {
	l := &Link{ID: len(n.links), Name: name, Packet: packet, net: n}
	for d := 0; d < 2; d++ {
		arrow := ">"
		if d == 1 {
			arrow = "<"
		}
		l.Dir[d] = &Pipe{link: l, d: d, Key: fmt.Sprintf("l%d%s", l.ID, arrow), Partial: n.DefaultPartial}
		l.Dir[d].optKey = "N:" + l.Dir[d].Key
		l.Dir[d].rq.Desc = "simnet read " + l.Dir[d].Key
	}
	l.Ends[0] = &Conn{link: l, side: 0, in: l.Dir[1], out: l.Dir[0], local: la, remote: ra}
	l.Ends[1] = &Conn{link: l, side: 1, in: l.Dir[0], out: l.Dir[1], local: ra, remote: la}
	n.links = append(n.links, l)
	if n.OnLink != nil {
		n.OnLink(l)
	}
	return l
}

// Pipe creates a connected pair outside any listener (W-sess wiring).
func (n *Net) Pipe(name string) (*Conn, *Conn) {
	n.mu.Lock()
	defer n.mu.Unlock()
	id := len(n.links)
	l := n.newLink(name, false, &net.TCPAddr{IP: net.IPv4(10, 0, 0, 1), Port: 40000 + id}, &net.TCPAddr{IP: net.IPv4(10, 0, 0, 2), Port: 443})
	return l.Ends[0], l.Ends[1]
}

// PacketPipe is Pipe with datagram semantics: one Read returns one Write.
func (n *Net) PacketPipe(name string) (*Conn, *Conn) {
	n.mu.Lock()
	defer n.mu.Unlock()
	id := len(n.links)
	l := n.newLink(name, true, &net.UDPAddr{IP: net.IPv4(10, 0, 0, 1), Port: 40000 + id}, &net.UDPAddr{IP: net.IPv4(10, 0, 0, 2), Port: 53})
	return l.Ends[0], l.Ends[1]
}

func (n *Net) Links() []*Link { return n.links }

func (c *Conn) Link() *Link { return c.link }
func (c *Conn) Side() int   { return c.side }

func (n *Net) fired(kind string) { n.Fired[kind]++ }

// ---- scheduler options ----

func (n *Net) options() []simsync.Option {
	n.mu.Lock()
	defer n.mu.Unlock()
	now := time.Now()
	var ps []*Pipe
	for _, l := range n.links {
		for _, p := range l.Dir {
			if len(p.inflight) > 0 && !p.rst && !p.Manual && !now.Before(p.stalled) {
				ps = append(ps, p)
			}
		}
	}
	sort.Slice(ps, func(i, j int) bool { return ps[i].inflight[0].seq < ps[j].inflight[0].seq })
	var opts []simsync.Option
	for _, p := range ps {
		p := p
		o := simsync.Option{Key: p.optKey, Class: 'N', AnchorN: p.segSeq, Weight: p.Weight}
		if p.Partial && !p.link.Packet && len(p.inflight[0].b) > 1 {
			o.NParam = len(p.inflight[0].b)
		}
		o.Apply = func(param int) { n.deliver(p, param) }
		opts = append(opts, o)
	}
	for _, kind := range []string{"reset", "eof"} {
		if n.FaultBudget[kind] <= 0 {
			continue
		}
		for _, l := range n.links {
			if l.Dir[0].rst || (l.Ends[0].closed && l.Ends[1].closed) {
				continue
			}
			l := l
			if kind == "reset" {
				opts = append(opts, simsync.Option{Key: fmt.Sprintf("F:reset:l%d", l.ID), Class: 'F', Apply: func(int) {
					n.mu.Lock()
					n.FaultBudget["reset"]--
					n.resetLocked(l)
					n.mu.Unlock()
				}})
			} else {
				for d := 0; d < 2; d++ {
					d := d
					if l.Dir[d].fin {
						continue
					}
					opts = append(opts, simsync.Option{Key: fmt.Sprintf("F:eof:%s", l.Dir[d].Key), Class: 'F', Apply: func(int) {
						n.mu.Lock()
						n.FaultBudget["eof"]--
						n.finLocked(l.Dir[d])
						n.mu.Unlock()
					}})
				}
			}
		}
	}
	return opts
}

// deliver moves the oldest in-flight segment (param==0) or its first param
// bytes to the reader.
func (n *Net) deliver(p *Pipe, param int) {
	n.mu.Lock()
	defer n.mu.Unlock()
	if len(p.inflight) == 0 || p.rst {
		return
	}
	s := &p.inflight[0]
	var b []byte
	if param <= 0 || param >= len(s.b) {
		b = s.b
		p.inflight = p.inflight[1:]
		p.segSeq++
	} else {
		b = s.b[:param]
		s.b = s.b[param:]
		n.fired("segment_cut")
	}
	if len(p.delivered) > 0 || (len(p.pkts) > 0) {
		n.fired("coalesced")
	}
	// "cut": the sending host dies - exactly AtByte bytes of this direction ever
	// arrive, then the stream ends (FIN); what was written beyond is lost
	for i := range p.link.Script {
		f := &p.link.Script[i]
		if !f.done && f.Kind == "cut" && f.Dir == p.d && !p.link.Packet && p.Delivered+int64(len(b)) >= f.AtByte {
			f.done = true
			b = b[:max(0, f.AtByte-p.Delivered)]
			p.inflight = nil
			n.fired("cut")
			p.fin = true
		}
	}
	if p.link.Packet {
		p.pkts = append(p.pkts, b)
	} else {
		p.delivered = append(p.delivered, b...)
	}
	p.Delivered += int64(len(b))
	n.checkByteScripts(p)
	p.rq.Wake()
}

// ManualDeliver hands the next k in-flight bytes of p (across write
// boundaries) to the reader as one segment; k<0 delivers everything.
func (n *Net) ManualDeliver(p *Pipe, k int) int {
	n.mu.Lock()
	defer n.mu.Unlock()
	moved := 0
	for len(p.inflight) > 0 && (k < 0 || moved < k) {
		s := &p.inflight[0]
		take := len(s.b)
		if k >= 0 && moved+take > k {
			take = k - moved
		}
		p.delivered = append(p.delivered, s.b[:take]...)
		moved += take
		if take == len(s.b) {
			p.inflight = p.inflight[1:]
			p.segSeq++
		} else {
			s.b = s.b[take:]
		}
	}
	p.Delivered += int64(moved)
	if moved > 0 {
		n.fired("segment_cut")
	}
	p.rq.Wake()
	return moved
}

// InFlight is the number of written but undelivered bytes on p.
func (n *Net) InFlight(p *Pipe) int {
	n.mu.Lock()
	defer n.mu.Unlock()
	t := 0
	for _, s := range p.inflight {
		t += len(s.b)
	}
	return t
}

func (n *Net) checkByteScripts(p *Pipe) {
	for i := range p.link.Script {
		f := &p.link.Script[i]
		if !f.done && f.AfterWrite == 0 && f.AtConsumed == 0 && f.Kind != "cut" && f.Dir == p.d && p.Delivered >= f.AtByte {
			f.done = true
			n.applyFault(p.link, f.Kind)
		}
	}
}

func (n *Net) applyFault(l *Link, kind string) {
	switch kind {
	case "reset":
		n.resetLocked(l)
	case "eof0":
		n.finLocked(l.Dir[0])
	case "eof1":
		n.finLocked(l.Dir[1])
	default:
		// "stall:<dir>:<ms>": delivery on that direction is suspended for that long
		var d, ms int
		if k, _ := fmt.Sscanf(kind, "stall:%d:%d", &d, &ms); k == 2 {
			dur := time.Duration(ms) * time.Millisecond
			l.Dir[d&1].stalled = time.Now().Add(dur)
			n.fired("stall")
			time.AfterFunc(dur, n.W.Ping)
		}
	}
}

func (n *Net) resetLocked(l *Link) {
	if l.Dir[0].rst {
		return
	}
	n.fired("reset")
	for _, p := range l.Dir {
		p.rst = true
		p.inflight = nil
		p.delivered = nil
		p.pkts = nil
		p.rq.Wake()
		p.wq.Wake()
	}
}

func (n *Net) finLocked(p *Pipe) {
	if p.fin {
		return
	}
	n.fired("eof")
	p.fin = true
	p.rq.Wake()
}

// Reset injects a connection reset on l (both ends see an error on their next operation).
func (n *Net) Reset(l *Link) {
	n.mu.Lock()
	n.resetLocked(l)
	n.mu.Unlock()
}

// Fin injects an EOF on direction d of l.
func (n *Net) Fin(l *Link, d int) {
	n.mu.Lock()
	n.finLocked(l.Dir[d])
	n.mu.Unlock()
}

// Stall suspends delivery on p for dur of virtual time.
func (n *Net) Stall(p *Pipe, dur time.Duration) {
	n.mu.Lock()
	p.stalled = time.Now().Add(dur)
	n.fired("stall")
	n.mu.Unlock()
	time.AfterFunc(dur, n.W.Ping)
}

// Idle reports whether no byte is in flight anywhere.
func (n *Net) Idle() bool {
	n.mu.Lock()
	defer n.mu.Unlock()
	for _, l := range n.links {
		for _, p := range l.Dir {
			if len(p.inflight) > 0 && !p.rst {
				return false
			}
		}
	}
	return true
}

// ---- net.Conn ----

type opErr struct {
	msg     string
	timeout bool
}

func (e *opErr) Error() string   { return e.msg }
func (e *opErr) Timeout() bool   { return e.timeout }
func (e *opErr) Temporary() bool { return e.timeout }
func (e *opErr) Is(t error) bool {
	return (e.timeout && t == os.ErrDeadlineExceeded) || (e.msg == errClosed.msg && t == net.ErrClosed)
}

var errClosed = &opErr{msg: "use of closed network connection"}
var errDeadline = &opErr{msg: "i/o timeout", timeout: true}

func (c *Conn) Read(b []byte) (int, error) {
	n := c.link.net
	n.mu.Lock()
	defer n.mu.Unlock()
	p := c.in
	if n.LogReads {
		c.ReadCalls = append(c.ReadCalls, ReadCall{n.W.Elapsed(), c.consumed})
	}
	for {
		if c.closed {
			return 0, errClosed
		}
		if p.rst {
			return 0, syscall.ECONNRESET
		}
		if c.link.Packet {
			if len(p.pkts) > 0 {
				k := copy(b, p.pkts[0])
				p.pkts = p.pkts[1:]
				return k, nil
			}
		} else if len(p.delivered) > 0 {
			if len(b) == 0 {
				return 0, nil
			}
			k := copy(b, p.delivered)
			c.consumed += int64(k)
			p.delivered = p.delivered[k:]
			if len(p.delivered) == 0 {
				p.delivered = nil
			}
			if n.SendWindow > 0 {
				p.wq.Wake()
			}
			for i := range c.link.Script {
				f := &c.link.Script[i]
				if !f.done && f.AtConsumed > 0 && f.Dir == p.d && c.consumed >= f.AtConsumed {
					f.done = true
					n.applyFault(c.link, f.Kind)
				}
			}
			return k, nil
		}
		if p.fin && len(p.inflight) == 0 && !c.link.isDark() {
			return 0, io.EOF
		}
		if !c.rdl.IsZero() && !time.Now().Before(c.rdl) {
			return 0, errDeadline
		}
		p.rq.Wait(&n.mu)
	}
}

func (c *Conn) Write(b []byte) (int, error) {
	n := c.link.net
	if n.YieldOnWrite {
		simsync.Yield("simnet:write")
	}
	n.mu.Lock()
	defer n.mu.Unlock()
	p := c.out
	if c.closed {
		return 0, errClosed
	}
	if p.rst {
		return 0, syscall.ECONNRESET
	}
	if p.fin || (c.link.Ends[1-c.side].closed && !c.link.isDark()) {
		// our FIN was sent, or the peer is gone: as TCP, the write fails (EPIPE / RST)
		return 0, syscall.EPIPE
	}
	if !c.wdl.IsZero() && !time.Now().Before(c.wdl) {
		return 0, errDeadline
	}
	if n.SendWindow > 0 && !c.link.Packet {
		return c.writeWindowed(b)
	}
	cp := append([]byte(nil), b...)
	n.wseq++
	p.inflight = append(p.inflight, seg{b: cp, seq: n.wseq})
	p.Writes++
	if n.TapOn {
		n.Tap = append(n.Tap, TapEvent{Step: n.W.Steps, At: n.W.Elapsed(), Pipe: p.Key, Off: p.Written, N: len(b)})
		p.TapBuf = append(p.TapBuf, b...)
		p.Bounds = append(p.Bounds, len(p.TapBuf))
	}
	p.Written += int64(len(b))
	for i := range c.link.Script {
		f := &c.link.Script[i]
		if !f.done && f.AfterWrite > 0 && f.Dir == p.d && p.Writes >= f.AfterWrite {
			f.done = true
			n.applyFault(c.link, f.Kind)
		}
	}
	// something new is enabled (a delivery): the scheduler may be letting time
	// pass, and a harness task that woke from a sleep does not park by itself
	n.W.Ping()
	return len(b), nil
}

// writeWindowed is Write under Net.SendWindow (n.mu held).
func (c *Conn) writeWindowed(b []byte) (int, error) {
	n := c.link.net
	p := c.out
	peer := c.link.Ends[1-c.side]
	// one Write at a time per connection (the runtime's fd write lock): the
	// parts of a blocked write are never interleaved with another writer's
	for c.wbusy {
		p.wq.Wait(&n.mu)
	}
	c.wbusy = true
	defer func() {
		c.wbusy = false
		p.wq.Wake()
	}()
	p.Writes++
	total := 0
	var err error
	for len(b) > 0 {
		if c.closed {
			err = errClosed
			break
		}
		if p.rst {
			err = syscall.ECONNRESET
			break
		}
		if p.fin || (peer.closed && !c.link.isDark()) {
			err = syscall.EPIPE
			break
		}
		room := n.SendWindow - int(p.Written-peer.consumed)
		if room <= 0 {
			if !c.wdl.IsZero() && !time.Now().Before(c.wdl) {
				err = errDeadline
				n.fired("write_timeout")
				break
			}
			n.fired("write_blocked")
			p.wq.Wait(&n.mu)
			continue
		}
		k := min(room, len(b))
		n.wseq++
		p.inflight = append(p.inflight, seg{b: append([]byte(nil), b[:k]...), seq: n.wseq})
		if n.TapOn {
			n.Tap = append(n.Tap, TapEvent{Step: n.W.Steps, At: n.W.Elapsed(), Pipe: p.Key, Off: p.Written, N: k})
			p.TapBuf = append(p.TapBuf, b[:k]...)
		}
		p.Written += int64(k)
		total += k
		b = b[k:]
		n.W.Ping()
	}
	if n.TapOn && total > 0 {
		p.Bounds = append(p.Bounds, len(p.TapBuf))
	}
	for i := range c.link.Script {
		f := &c.link.Script[i]
		if !f.done && f.AfterWrite > 0 && f.Dir == p.d && p.Writes >= f.AfterWrite {
			f.done = true
			n.applyFault(c.link, f.Kind)
		}
	}
	return total, err
}

func (c *Conn) Close() error {
	n := c.link.net
	n.mu.Lock()
	defer n.mu.Unlock()
	c.Closes++
	if c.closed {
		return errClosed
	}
	c.closed = true
	c.out.fin = true
	c.in.delivered = nil
	c.in.pkts = nil
	c.in.rq.Wake()
	c.out.rq.Wake()
	c.in.wq.Wake()
	c.out.wq.Wake()
	n.W.Ping()
	if c.rdlTimer != nil {
		c.rdlTimer.Stop()
	}
	return nil
}

// CloseWrite half-closes (FIN) the outgoing direction.
func (c *Conn) CloseWrite() error {
	n := c.link.net
	n.mu.Lock()
	defer n.mu.Unlock()
	c.out.fin = true
	c.out.rq.Wake()
	return nil
}

func (c *Conn) IsClosed() bool {
	n := c.link.net
	n.mu.Lock()
	defer n.mu.Unlock()
	return c.closed
}

func (c *Conn) LocalAddr() net.Addr  { return c.local }
func (c *Conn) RemoteAddr() net.Addr { return c.remote }

func (c *Conn) SetDeadline(t time.Time) error {
	c.SetReadDeadline(t)
	return c.SetWriteDeadline(t)
}

func (c *Conn) SetReadDeadline(t time.Time) error {
	n := c.link.net
	n.mu.Lock()
	defer n.mu.Unlock()
	if c.closed {
		return errClosed
	}
	c.rdl = t
	if c.rdlTimer != nil {
		c.rdlTimer.Stop()
		c.rdlTimer = nil
	}
	if !t.IsZero() {
		if d := time.Until(t); d > 0 {
			c.rdlTimer = time.AfterFunc(d, func() {
				n.mu.Lock()
				c.in.rq.Wake()
				n.mu.Unlock()
			})
		}
	}
	// a deadline in the past (or a new one) must wake a blocked reader at once
	c.in.rq.Wake()
	return nil
}

func (c *Conn) SetWriteDeadline(t time.Time) error {
	n := c.link.net
	n.mu.Lock()
	defer n.mu.Unlock()
	c.wdl = t
	if n.SendWindow > 0 {
		if c.wdlTimer != nil {
			c.wdlTimer.Stop()
			c.wdlTimer = nil
		}
		if d := time.Until(t); !t.IsZero() && d > 0 {
			c.wdlTimer = time.AfterFunc(d, func() {
				n.mu.Lock()
				c.out.wq.Wake()
				n.mu.Unlock()
			})
		}
		c.out.wq.Wake()
	}
	return nil
}

// ---- listener / dialer ----

type Listener struct {
	net     *Net
	addr    net.Addr
	backlog []*Conn
	closed  bool
	aq      simsync.WaitQ
	// AcceptFail: number of upcoming Accept calls that return an error
	AcceptFail int
}

func (n *Net) Listen(addr string) *Listener {
	n.mu.Lock()
	defer n.mu.Unlock()
	ta, err := net.ResolveTCPAddr("tcp", addr)
	if err != nil {
		panic(err)
	}
	l := &Listener{net: n, addr: ta}
	l.aq.Desc = "simnet accept " + addr
	n.listeners[ta.String()] = l
	return l
}

// ListenNet is Listen for a given network ("tcp" or "udp": datagram links).
func (n *Net) ListenNet(network, addr string) *Listener {
	if network != "udp" {
		return n.Listen(addr)
	}
	n.mu.Lock()
	defer n.mu.Unlock()
	ua, err := net.ResolveUDPAddr("udp", addr)
	if err != nil {
		panic(err)
	}
	l := &Listener{net: n, addr: ua}
	l.aq.Desc = "simnet accept udp " + addr
	n.listeners[ua.String()] = l
	return l
}

func (l *Listener) Accept() (net.Conn, error) {
	n := l.net
	n.mu.Lock()
	defer n.mu.Unlock()
	for {
		if l.closed {
			return nil, errClosed
		}
		if l.AcceptFail > 0 {
			l.AcceptFail--
			n.fired("accept_fail")
			return nil, &opErr{msg: "accept: too many open files", timeout: true}
		}
		if len(l.backlog) > 0 {
			c := l.backlog[0]
			l.backlog = l.backlog[1:]
			return c, nil
		}
		l.aq.Wait(&n.mu)
	}
}

func (l *Listener) Close() error {
	n := l.net
	n.mu.Lock()
	defer n.mu.Unlock()
	l.closed = true
	l.aq.Wake()
	return nil
}

func (l *Listener) Addr() net.Addr { return l.addr }

// Dialer implements common.Dialer over the simulated network.
type Dialer struct {
	Net       *Net
	LocalIP   string
	KeepAlive time.Duration
	Tag       string
	// TagFunc, if set, names the link after who dialled (e.g. the calling task)
	TagFunc func() string
	Dials   int
}

var ErrRefused = errors.New("connect: connection refused")

func (d *Dialer) Dial(network, address string) (net.Conn, error) {
	n := d.Net
	n.mu.Lock()
	defer n.mu.Unlock()
	d.Dials++
	packet := network == "udp" || network == "udp4"
	var key string
	if packet {
		ua, err := net.ResolveUDPAddr("udp", address)
		if err != nil {
			return nil, err
		}
		key = ua.String()
	} else {
		ta, err := net.ResolveTCPAddr("tcp", address)
		if err != nil {
			return nil, err
		}
		key = ta.String()
	}
	if dl := n.DialDelay[key]; dl > 0 {
		n.mu.Unlock()
		time.Sleep(dl)
		simsync.Yield("simnet:dial")
		n.mu.Lock()
	}
	if n.DialFail[key] > 0 {
		n.DialFail[key]--
		n.fired("dial_fail")
		return nil, ErrRefused
	}
	l := n.listeners[key]
	if l == nil || l.closed {
		return nil, ErrRefused
	}
	ip := d.LocalIP
	if ip == "" {
		ip = "10.0.0.1"
	}
	la := &net.TCPAddr{IP: net.ParseIP(ip), Port: 30000 + len(n.links)}
	lk := n.newLink(d.Tag, packet, la, l.addr)
	if lk.Tag == "" {
		lk.Tag = d.Tag
	}
	if d.TagFunc != nil {
		lk.Tag = d.TagFunc()
	}
	lk.KeepAlive = d.KeepAlive
	n.W.Ping()
	l.backlog = append(l.backlog, lk.Ends[1])
	l.aq.Wake()
	return lk.Ends[0], nil
}
