package simnet

import (
	"net"
	"time"

	"github.com/cbeuw/Cloak/internal/simsync"
)

// PacketSock is an unconnected datagram socket (net.PacketConn) of the
// simulated network: what net.ListenUDP gives ck-client for its local side.
// Local applications are harness tasks that Inject datagrams under their own
// source address and Recv what the socket's owner sends back to that address.
// Delivery on this local hop is immediate and lossless (loopback); which task
// runs when is the scheduler's choice as everywhere else.
type PacketSock struct {
	net    *Net
	addr   net.Addr
	in     []sockPkt
	rq     simsync.WaitQ
	out    map[string][][]byte
	oq     simsync.WaitQ
	closed bool
	// Sent counts WriteTo calls per destination
	Sent map[string]int
}

type sockPkt struct {
	from net.Addr
	b    []byte
}

func (n *Net) NewPacketSock(addr string) *PacketSock {
	ua, err := net.ResolveUDPAddr("udp", addr)
	if err != nil {
		panic(err)
	}
	s := &PacketSock{net: n, addr: ua, out: map[string][][]byte{}, Sent: map[string]int{}}
	s.rq.Desc = "simnet udp socket read " + addr
	s.oq.Desc = "simnet udp app recv " + addr
	return s
}

// Inject hands the socket one datagram from a local application.
func (s *PacketSock) Inject(from net.Addr, b []byte) {
	n := s.net
	n.mu.Lock()
	defer n.mu.Unlock()
	s.in = append(s.in, sockPkt{from, append([]byte(nil), b...)})
	n.W.Ping()
	s.rq.Wake()
}

// Recv blocks until the socket's owner has sent a datagram to addr (or the
// socket is closed: ok=false).
func (s *PacketSock) Recv(addr net.Addr) (b []byte, ok bool) {
	n := s.net
	n.mu.Lock()
	defer n.mu.Unlock()
	k := addr.String()
	for {
		if q := s.out[k]; len(q) > 0 {
			s.out[k] = q[1:]
			return q[0], true
		}
		if s.closed {
			return nil, false
		}
		s.oq.Wait(&n.mu)
	}
}

// Pending is the number of datagrams sent to addr and not yet received by it.
func (s *PacketSock) Pending(addr net.Addr) int {
	n := s.net
	n.mu.Lock()
	defer n.mu.Unlock()
	return len(s.out[addr.String()])
}

func (s *PacketSock) ReadFrom(p []byte) (int, net.Addr, error) {
	n := s.net
	n.mu.Lock()
	defer n.mu.Unlock()
	for {
		if s.closed {
			return 0, nil, errClosed
		}
		if len(s.in) > 0 {
			pk := s.in[0]
			s.in = s.in[1:]
			return copy(p, pk.b), pk.from, nil
		}
		s.rq.Wait(&n.mu)
	}
}

func (s *PacketSock) WriteTo(p []byte, addr net.Addr) (int, error) {
	n := s.net
	n.mu.Lock()
	defer n.mu.Unlock()
	if s.closed {
		return 0, errClosed
	}
	k := addr.String()
	s.out[k] = append(s.out[k], append([]byte(nil), p...))
	s.Sent[k]++
	n.W.Ping()
	s.oq.Wake()
	return len(p), nil
}

func (s *PacketSock) Close() error {
	n := s.net
	n.mu.Lock()
	defer n.mu.Unlock()
	s.closed = true
	n.W.Ping()
	s.rq.Wake()
	s.oq.Wake()
	return nil
}

func (s *PacketSock) LocalAddr() net.Addr                { return s.addr }
func (s *PacketSock) SetDeadline(t time.Time) error      { return nil }
func (s *PacketSock) SetReadDeadline(t time.Time) error  { return nil }
func (s *PacketSock) SetWriteDeadline(t time.Time) error { return nil }
