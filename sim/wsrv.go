package verifsim

import (
	"crypto"
	"encoding/base64"
	"encoding/json"
	"flag"
	"fmt"
	"io"
	"math/rand/v2"
	"net"
	"os"
	"path/filepath"
	"strings"
	"time"

	"github.com/cbeuw/Cloak/internal/client"
	"github.com/cbeuw/Cloak/internal/common"
	"github.com/cbeuw/Cloak/internal/ecdh"
	"github.com/cbeuw/Cloak/internal/server"
	"github.com/cbeuw/Cloak/internal/server/usermanager"
	"github.com/cbeuw/Cloak/internal/simsync"
	"github.com/cbeuw/Cloak/internal/verifmain/ckclient"
	"github.com/cbeuw/Cloak/internal/verifmain/ckserver"
	"github.com/cbeuw/Cloak/verifsim/simnet"
)

// SrvWorld is a real server.State (cleaner and usage-upload goroutines alive,
// bbolt user database on a scratch directory) on the simulated network.
type SrvWorld struct {
	c       *Ctx
	Sta     *server.State
	Pub     crypto.PublicKey
	PubRaw  []byte
	PrivRaw []byte
	Admin   []byte
	Bypass  [][]byte
	DBDir   string
	// clock skew of the server against the bubble clock
	Skew time.Duration
	// listeners
	Front    *simnet.Listener // where Cloak clients and probers connect
	Upstream map[string]*simnet.Listener
	Redir    *simnet.Listener
	Mgr      usermanager.UserManager
	cleanups []func()
	// RealMain: the server was started by cmd/ck-server's main() (which serves
	// its listeners itself); Fronts are its listeners, Exit a log.Fatal message
	RealMain bool
	Fronts   []*simnet.Listener
	Exit     string
}

// Serve starts the accept loop on the front listener unless ck-server's own
// main() is already serving.
func (w *SrvWorld) Serve() {
	if !w.RealMain {
		simsync.Go("h:serve", func() { server.Serve(w.Front, w.Sta) })
	}
}

const (
	srvAddr   = "10.0.0.2:443"
	redirAddr = "10.0.0.4:443"
)

type rngReader struct{ r *rand.Rand }

func (r rngReader) Read(p []byte) (int, error) {
	for i := range p {
		p[i] = byte(r.r.Uint32())
	}
	return len(p), nil
}

type SrvParams struct {
	NoAdmin bool // the configuration names no AdminUID
	// RedirNoPort: RedirAddr names a host only; the redirect target's port is then
	// the port the peer connected to
	RedirNoPort bool
	// PluginMode (with RealMain): ck-server is started the way Shadowsocks starts
	// a plugin - no command line; SS_PLUGIN_OPTIONS names the configuration,
	// SS_REMOTE_HOST/PORT the address to bind, SS_LOCAL_HOST/PORT the
	// shadowsocks server, which becomes the "shadowsocks" entry of the ProxyBook
	PluginMode bool
	// ProxyBook: method name -> [network, address]
	ProxyBook map[string][]string
	NBypass   int
	WithDB    bool
	SkewMS    int64
	// RealMain: start the server through cmd/ck-server's main() (no clock skew:
	// it runs on the real world state); BindAddrs: its BindAddr setting
	RealMain  bool
	BindAddrs []string
}

var scratchSeq int

func scratchDir() string {
	base := "/dev/shm"
	if _, err := os.Stat(base); err != nil {
		base = os.TempDir()
	}
	scratchSeq++
	d := filepath.Join(base, fmt.Sprintf("verif-%d-%d", os.Getpid(), scratchSeq))
	os.MkdirAll(d, 0o755)
	return d
}

// NewSrvWorld builds the server state through the same path ck-server uses
// (RawConfig -> InitState) and swaps the dialers for simulated ones.
func NewSrvWorld(c *Ctx, p SrvParams) *SrvWorld {
	w := &SrvWorld{c: c, Upstream: map[string]*simnet.Listener{}, Skew: time.Duration(p.SkewMS) * time.Millisecond}
	priv, pub, err := ecdh.GenerateKey(rngReader{c.Rng})
	if err != nil {
		panic(err)
	}
	w.Pub = pub
	w.PubRaw = append([]byte(nil), ecdh.Marshal(pub)...)
	pr := priv.(*[32]byte)
	w.PrivRaw = append([]byte(nil), pr[:]...)
	w.Admin = randBytes(c.Rng, 16)
	for i := 0; i < p.NBypass; i++ {
		w.Bypass = append(w.Bypass, randBytes(c.Rng, 16))
	}
	if p.ProxyBook == nil {
		p.ProxyBook = map[string][]string{"shadowsocks": {"tcp", "10.0.0.3:8388"}}
	}
	raw := server.RawConfig{ProxyBook: p.ProxyBook, BypassUID: w.Bypass, RedirAddr: redirAddr, PrivateKey: w.PrivRaw, AdminUID: w.Admin}
	if p.NoAdmin {
		// a server set up without an administrator (and hence without a database)
		raw.AdminUID = nil
	}
	if p.RedirNoPort {
		raw.RedirAddr, _, _ = net.SplitHostPort(redirAddr)
	}
	if p.WithDB {
		w.DBDir = scratchDir()
		raw.DatabasePath = filepath.Join(w.DBDir, "userinfo.db")
	}
	if p.RealMain {
		// the shipped main() of cmd/ck-server (importable copy made by the
		// instrumenter): configuration file -> ParseConfig -> resolveBindAddr ->
		// InitState -> one listener per bind address -> Serve
		if len(p.BindAddrs) == 0 {
			p.BindAddrs = []string{srvAddr}
		}
		raw.BindAddr = p.BindAddrs
		dir := scratchDir()
		w.cleanups = append(w.cleanups, func() { os.RemoveAll(dir) })
		cfg := filepath.Join(dir, "ckserver.json")
		args := []string{"ck-server", "-c", cfg, "-verbosity", "panic"}
		if p.PluginMode {
			ss := p.ProxyBook["shadowsocks"]
			host, port, _ := net.SplitHostPort(ss[1])
			bh, bp, _ := net.SplitHostPort(p.BindAddrs[0])
			env := map[string]string{"SS_LOCAL_HOST": host, "SS_LOCAL_PORT": port, "SS_REMOTE_HOST": bh, "SS_REMOTE_PORT": bp, "SS_PLUGIN_OPTIONS": cfg}
			for k, v := range env {
				os.Setenv(k, v)
			}
			w.cleanups = append(w.cleanups, func() {
				for k := range env {
					os.Unsetenv(k)
				}
			})
			// the configuration itself names neither the bind address nor shadowsocks
			book := map[string][]string{"other": {"tcp", "10.0.0.3:9999"}}
			for k, v := range p.ProxyBook {
				if k != "shadowsocks" {
					book[k] = v
				}
			}
			raw.ProxyBook, raw.BindAddr = book, nil
			p.BindAddrs = p.BindAddrs[:1]
			args = []string{"ck-server"}
			c.Probe("ck_server_plugin_mode")
		}
		b, _ := json.Marshal(raw)
		os.WriteFile(cfg, b, 0o600)
		listening := 0
		simsync.HookListen = func(network, addr string) (net.Listener, error) {
			l := c.Net.Listen(addr)
			w.Fronts = append(w.Fronts, l)
			listening++
			return l, nil
		}
		simsync.HookServe = func(l net.Listener, st any) {
			sta := st.(*server.State)
			if w.Sta == nil {
				sta.ProxyDialer = &simnet.Dialer{Net: c.Net, LocalIP: "10.0.0.2", Tag: "proxy"}
				sta.RedirDialer = &simnet.Dialer{Net: c.Net, LocalIP: "10.0.0.2", Tag: "redir", TagFunc: simsync.CurrentTaskName}
				w.Sta = sta
				w.Mgr = sta.Panel.Manager
			}
			server.Serve(l, sta)
		}
		simsync.Go("h:ck-server", func() {
			defer func() {
				if r := recover(); r != nil {
					fe, ok := r.(simsync.FatalExit)
					if !ok {
						panic(r)
					}
					w.Exit = fe.Msg
				}
			}()
			os.Args = args
			flag.CommandLine = flag.NewFlagSet("ck-server", flag.ContinueOnError)
			ckserver.Main()
		})
		c.Drive(func() bool { return w.Exit != "" || (w.Sta != nil && listening == len(p.BindAddrs)) })
		if w.Sta == nil {
			panic(fmt.Sprintf("ck-server main() did not come up: %q", w.Exit))
		}
		w.RealMain = true
		for name, e := range p.ProxyBook {
			if e[0] != "tcp" && e[0] != "udp" {
				continue
			}
			w.Upstream[name] = c.Net.ListenNet(e[0], e[1])
		}
		w.Redir = c.Net.Listen(redirAddr)
		return w
	}
	world := common.WorldState{Rand: rngReader{rand.New(rand.NewPCG(c.Rng.Uint64(), 7))}, Now: func() time.Time { return time.Now().Add(w.Skew) }}
	sta, err := server.InitState(raw, world)
	if err != nil {
		panic(fmt.Sprintf("InitState: %v", err))
	}
	sta.ProxyDialer = &simnet.Dialer{Net: c.Net, LocalIP: "10.0.0.2", Tag: "proxy"}
	// redirect links are named after the dispatching task (dispatcher.go:42#k = k-th accepted connection)
	sta.RedirDialer = &simnet.Dialer{Net: c.Net, LocalIP: "10.0.0.2", Tag: "redir", TagFunc: simsync.CurrentTaskName}
	w.Sta = sta
	w.Mgr = sta.Panel.Manager
	w.Front = c.Net.Listen(srvAddr)
	for name, e := range p.ProxyBook {
		if e[0] != "tcp" && e[0] != "udp" {
			continue // an entry the server cannot serve (it ignores it)
		}
		w.Upstream[name] = c.Net.ListenNet(e[0], e[1])
	}
	w.Redir = c.Net.Listen(redirAddr)
	return w
}

// Cleanup closes the database and removes the scratch directory.
func (w *SrvWorld) Cleanup() {
	if cl, ok := w.Mgr.(io.Closer); ok {
		cl.Close()
	}
	if w.DBDir != "" {
		os.RemoveAll(w.DBDir)
	}
	for _, f := range w.cleanups {
		f()
	}
}

func genKeyPair(r *rand.Rand) (priv, pub []byte) {
	pv, pb, err := ecdh.GenerateKey(rngReader{r})
	if err != nil {
		panic(err)
	}
	p := pv.(*[32]byte)
	return append([]byte(nil), p[:]...), append([]byte(nil), ecdh.Marshal(pb)...)
}

func randBytes(r *rand.Rand, n int) []byte {
	b := make([]byte, n)
	for i := range b {
		b[i] = byte(r.Uint32())
	}
	return b
}

// ClientParams describes a Cloak client as its configuration file would.
type ClientParams struct {
	UID           []byte `json:"uid"`
	Method        string `json:"method"`     // proxy method
	Encryption    string `json:"encryption"` // plain | aes-128-gcm | aes-256-gcm | chacha20-poly1305
	Browser       string `json:"browser"`    // chrome | firefox | safari
	Transport     string `json:"transport"`  // direct | CDN
	ServerName    string `json:"server_name"`
	NumConn       int    `json:"num_conn"`
	UDP           bool   `json:"udp,omitempty"`
	SkewMS        int64  `json:"skew_ms,omitempty"` // client clock against the bubble clock
	SessionID     uint32 `json:"session_id"`
	CDNOriginHost string `json:"cdn_origin_host,omitempty"`
	CDNWsUrlPath  string `json:"cdn_ws_url_path,omitempty"`
	StreamTimeout int    `json:"stream_timeout,omitempty"` // seconds; 0 = default (300)
	// AbsTimeS != 0: the client's clock reads this many seconds since the epoch
	// (timestamps centuries away from the server's clock), whatever SkewMS says
	AbsTimeS int64 `json:"abs_time_s,omitempty"`
	// RemotePort: the server port to dial ("" = 443)
	RemotePort string `json:"remote_port,omitempty"`
}

// ClientConfig runs the real configuration path (RawConfig -> ProcessRawConfig).
func (w *SrvWorld) rawClientConfig(p ClientParams) client.RawConfig {
	raw := client.RawConfig{ServerName: p.ServerName, ProxyMethod: p.Method, EncryptionMethod: p.Encryption, UID: p.UID, PublicKey: w.PubRaw,
		NumConn: p.NumConn, LocalHost: "127.0.0.1", LocalPort: "1984", RemoteHost: "10.0.0.2", RemotePort: "443",
		UDP: p.UDP, BrowserSig: p.Browser, Transport: p.Transport, StreamTimeout: p.StreamTimeout}
	if raw.ServerName == "" {
		raw.ServerName = "www.bing.com"
	}
	if p.RemotePort != "" {
		raw.RemotePort = p.RemotePort
	}
	if strings.EqualFold(p.Transport, "cdn") {
		raw.RemoteHost = "10.0.0.8" // the CDN edge
		raw.CDNOriginHost = p.CDNOriginHost
		raw.CDNWsUrlPath = p.CDNWsUrlPath
	}
	return raw
}

// CkClient is a running cmd/ck-client main() inside the simulation.
type CkClient struct {
	LocalAddr string
	Listener  *simnet.Listener   // TCP mode, once main() has bound it
	Sock      *simnet.PacketSock // UDP mode, once RouteUDP has bound it
	Exit      string             // message of a log.Fatal, if main() ended that way
	Dialer    *net.Dialer        // the dialer main() configured
}

// Ready: main() has bound its local side (or ended).
func (k *CkClient) Ready() bool { return k.Listener != nil || k.Sock != nil || k.Exit != "" }

// AwaitReady parks the calling harness task until Ready.
func (k *CkClient) AwaitReady() {
	for !k.Ready() {
		Sleep(time.Millisecond)
	}
}

// StartCkClient writes the configuration as a JSON file and runs the shipped
// main() of cmd/ck-client on it (the importable copy made by the instrumenter:
// net.Listen / net.ListenUDP / the net.Dialer / log.Fatal are hooked, nothing
// else differs), with extra command-line arguments if given.
func (w *SrvWorld) StartCkClient(c *Ctx, p ClientParams, args ...string) *CkClient {
	raw := w.rawClientConfig(p)
	k := &CkClient{LocalAddr: net.JoinHostPort(raw.LocalHost, raw.LocalPort)}
	dir := scratchDir()
	w.cleanups = append(w.cleanups, func() { os.RemoveAll(dir) })
	cfg := filepath.Join(dir, "ckclient.json")
	b, _ := json.Marshal(raw)
	os.WriteFile(cfg, b, 0o600)
	simsync.HookDialer = func(nd *net.Dialer) simsync.Dialer {
		k.Dialer = nd
		return &simnet.Dialer{Net: c.Net, LocalIP: "10.0.6.1", Tag: "front", KeepAlive: nd.KeepAlive}
	}
	simsync.HookListen = func(network, addr string) (net.Listener, error) {
		k.Listener = c.Net.Listen(addr)
		return k.Listener, nil
	}
	simsync.HookListenUDP = func(network string, la *net.UDPAddr) (net.PacketConn, error) {
		k.Sock = c.Net.NewPacketSock(la.String())
		return k.Sock, nil
	}
	simsync.Go("h:ck-client", func() {
		defer func() {
			if r := recover(); r != nil {
				fe, ok := r.(simsync.FatalExit)
				if !ok {
					panic(r)
				}
				k.Exit = fe.Msg
			}
		}()
		os.Args = append([]string{"ck-client", "-c", cfg, "-verbosity", "panic"}, args...)
		flag.CommandLine = flag.NewFlagSet("ck-client", flag.ContinueOnError)
		ckclient.Main()
	})
	return k
}

func (w *SrvWorld) ClientConfig(p ClientParams, rng *rand.Rand) (client.LocalConnConfig, client.RemoteConnConfig, client.AuthInfo, error) {
	raw := w.rawClientConfig(p)
	skew := time.Duration(p.SkewMS) * time.Millisecond
	ws := common.WorldState{Rand: rngReader{rng}, Now: func() time.Time { return time.Now().Add(skew) }}
	if p.AbsTimeS != 0 {
		ws.Now = func() time.Time { return time.Unix(p.AbsTimeS, 0) }
	}
	l, r, a, err := raw.ProcessRawConfig(ws)
	a.SessionId = p.SessionID
	return l, r, a, err
}

func b64(b []byte) string { return base64.StdEncoding.EncodeToString(b) }

// FirstPacket produces the first packet a real client would send (direct
// transport): it runs the client's Handshake against a connection nobody
// answers and returns what was written.
func (w *SrvWorld) FirstPacket(p ClientParams, rng *rand.Rand) ([]byte, error) {
	_, remote, auth, err := w.ClientConfig(p, rng)
	if err != nil {
		return nil, err
	}
	tr := remote.Transport.CreateTransport()
	cc := &captureConn{}
	tr.Handshake(cc, auth) // writes the hello, then fails reading the reply
	if len(cc.w) == 0 {
		return nil, fmt.Errorf("the client wrote nothing")
	}
	return cc.w[0], nil
}

// captureConn records writes and reports EOF on reads.
type captureConn struct {
	w [][]byte
}

func (c *captureConn) Read(b []byte) (int, error) { return 0, io.EOF }
func (c *captureConn) Write(b []byte) (int, error) {
	c.w = append(c.w, append([]byte(nil), b...))
	return len(b), nil
}
func (c *captureConn) Close() error        { return nil }
func (c *captureConn) LocalAddr() net.Addr { return &net.TCPAddr{IP: net.IPv4(10, 0, 0, 9), Port: 1} }
func (c *captureConn) RemoteAddr() net.Addr {
	return &net.TCPAddr{IP: net.IPv4(10, 0, 0, 2), Port: 443}
}
func (c *captureConn) SetDeadline(t time.Time) error      { return nil }
func (c *captureConn) SetReadDeadline(t time.Time) error  { return nil }
func (c *captureConn) SetWriteDeadline(t time.Time) error { return nil }
