package verifsim

import (
	"fmt"
	"io"

	"github.com/cbeuw/Cloak/internal/common"
	"github.com/cbeuw/Cloak/internal/simsync"
)

// ---- C11, concurrent: forged and genuine messages on several connections at once ----
//
// c11-bitflips / c11-garbage inject one forged record at a quiescent moment.
// Here 2..4 extra connections of a primed session deliver their messages
// concurrently, with no waiting in between: arbitrary bytes, bit-flipped
// frames, frames for unseen streams (genuine, sealed with the session key),
// stream-closing and - sometimes - a genuine session-closing frame, while the
// application accepts streams or not. Whatever the receive loops of the
// connections do to each other, the process must not crash, and under an
// authenticated method forged messages must not close the session or create
// streams: exactly the genuine new streams are handed to Accept.

type C11StormMsg struct {
	Kind string `json:"kind"` // garbage | flip | newstream | data | close-stream | close-session
	Len  int    `json:"len,omitempty"`
	ID   uint32 `json:"id,omitempty"` // newstream / close-stream: stream id
	Bit  int    `json:"bit,omitempty"`
}

type C11StormScenario struct {
	Method  byte            `json:"method"`
	Conns   [][]C11StormMsg `json:"conns"`
	Accept  bool            `json:"accept"` // the application drains Accept
	Seed    uint64          `json:"seed"`
	Partial bool            `json:"partial"`
}

func genC11Storm(g *Gen) any {
	sc := &C11StormScenario{Method: byte(g.Int(0, 3)), Accept: g.Bool(0.6), Seed: g.Rng.Uint64(), Partial: g.Bool(0.4)}
	nc := g.Int(2, 4)
	nextID := uint32(100)
	closer := -1
	if g.Bool(0.5) {
		closer = g.Int(0, nc-1)
	}
	for i := 0; i < nc; i++ {
		var msgs []C11StormMsg
		for j := 0; j < g.Int(1, 8); j++ {
			m := C11StormMsg{Kind: []string{"garbage", "garbage", "flip", "newstream", "newstream", "data", "close-stream"}[g.Rng.IntN(7)]}
			switch m.Kind {
			case "garbage":
				m.Len = g.Pick(0, 13, 14, 22, 23, 38, 100, 1000, g.Int(0, 3000))
			case "flip":
				m.Bit = g.Int(0, 14*8+200)
			case "newstream", "close-stream":
				m.ID = nextID
				nextID++
			}
			msgs = append(msgs, m)
		}
		if i == closer {
			at := g.Int(0, len(msgs))
			msgs = append(msgs[:at], append([]C11StormMsg{{Kind: "close-session"}}, msgs[at:]...)...)
		}
		sc.Conns = append(sc.Conns, msgs)
	}
	return sc
}

func runC11Storm(c *Ctx, scAny any) {
	sc := scAny.(*C11StormScenario)
	c.Net.DefaultPartial = sc.Partial
	sw := NewSessWorld(c, SessParams{Method: sc.Method, NConn: 1, InactS: 3600}, nil, nil)
	rng := c.Rng
	const prime = 4
	primed := false
	var sid uint32
	simsync.Go("h:client", func() {
		st, err := sw.C.OpenStream()
		if err != nil {
			c.Fail("setup", "error:open", "%v", err)
			return
		}
		sid = st.VerifID()
		for i := 0; i < prime; i++ {
			if _, err := st.Write([]byte{byte(i), 0xAA, 0xBB}); err != nil {
				c.Fail("setup", "error:write", "%v", err)
				return
			}
		}
	})
	accepted := 0
	simsync.Go("h:server", func() {
		conn, err := sw.S.Accept()
		if err != nil {
			return
		}
		b := make([]byte, 3*prime)
		if _, err := io.ReadFull(conn, b); err != nil {
			c.Fail("setup", "error:read", "%v", err)
			return
		}
		primed = true
		for sc.Accept {
			if _, err := sw.S.Accept(); err != nil {
				return
			}
			accepted++
		}
	})
	c.Drive(func() bool { return primed })
	if c.Failed() || !primed {
		return
	}
	ref, _ := NewRefCodec(sc.Method, sw.Key)
	genuineNew := 0
	closing := false
	writers := len(sc.Conns)
	for i, msgs := range sc.Conns {
		msgs := msgs
		a, b := c.Net.Pipe(fmt.Sprintf("inject%d", i))
		sw.S.AddConnection(common.NewTLSConn(b))
		// what this connection will deliver is fixed before anything runs
		var recs [][]byte
		for _, m := range msgs {
			rnd := make([]byte, 8)
			for k := range rnd {
				rnd[k] = byte(rng.Uint32())
			}
			f := RefFrame{StreamID: sid, Seq: prime + 5, Payload: []byte{1, 2, 3}}
			var msg []byte
			switch m.Kind {
			case "garbage":
				msg = make([]byte, m.Len)
				for k := range msg {
					msg[k] = byte(rng.Uint32())
				}
			case "flip":
				msg = ref.Encode(f, rnd)
				bit := m.Bit % (len(msg) * 8)
				if bit/8 == 12 || bit/8 == 13 {
					bit = 0 // header bytes 12/13 are the listed known finding, not this family's business
				}
				msg[bit/8] ^= 1 << (bit % 8)
			case "newstream":
				f.StreamID, f.Seq = m.ID, 0
				msg = ref.Encode(f, rnd)
				genuineNew++
			case "data":
				f.Seq = prime + 50 + uint64(len(recs)) // far ahead: parked, never delivered
				msg = ref.Encode(f, rnd)
			case "close-stream":
				// the closing frame of a stream never seen before still announces it
				f.StreamID, f.Seq, f.Closing = m.ID, 0, 1
				msg = ref.Encode(f, rnd)
				genuineNew++
			case "close-session":
				f.StreamID, f.Seq, f.Closing = 0xffffffff, 0, 2
				msg = ref.Encode(f, rnd)
				closing = true
			}
			recs = append(recs, record(msg))
		}
		simsync.Go("h:injector", func() {
			defer func() { writers-- }()
			for _, r := range recs {
				if _, err := a.Write(r); err != nil {
					return
				}
			}
		})
	}
	end := c.Drive(func() bool { return writers == 0 && false })
	if c.Failed() {
		return // a panic of a receive loop is reported by the engine as C11:panic:...
	}
	if end != simsync.EndQuiescent {
		return
	}
	if sc.Method == 0 {
		return // no authenticity under plain: only "does not crash" is demanded
	}
	if !closing {
		if sw.S.IsClosed() {
			c.Fail("forgery", "session-closed-by-forgery", "authenticated method %d: the session was closed although no genuine session-closing frame was delivered (terminal message %q)", sc.Method, sw.S.TerminalMsg())
			return
		}
		if sc.Accept && accepted != genuineNew {
			c.Fail("forgery", "streams-created", "authenticated method %d: %d genuine first frames of new streams were delivered, Accept handed out %d streams", sc.Method, genuineNew, accepted)
			return
		}
	}
	c.Probe("storm_survived")
}

func init() {
	register(&Family{Name: "c11-storm", Count: func(tier string) int { return map[string]int{"quick": 2500, "thorough": 100000}[tier] },
		Gen: genC11Storm, New: func() any { return &C11StormScenario{} }, Run: runC11Storm,
		Policy: func(g *Gen) simsync.PolicyConfig {
			p := SwarmPolicy(g)
			p.Stall = 0
			return p
		}})
	plans["C11"] = append(plans["C11"], "c11-storm")
}
