#include "textflag.h"

// func getg() uintptr
TEXT ·getg(SB),NOSPLIT,$0-8
	MOVQ (TLS), AX
	MOVQ AX, ret+0(FP)
	RET
