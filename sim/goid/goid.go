// Package goid returns the id of the calling goroutine cheaply. It lives in
// the harness module (a directory that exists on disk) because the assembler
// cannot build a package that exists only in a build overlay.
package goid

import (
	"bytes"
	"runtime"
	"strconv"
	"unsafe"
)

func getg() uintptr

// slow parses the goroutine id out of a stack trace (costly: the runtime
// formats the whole stack). It is used to calibrate offset.
func slow() uint64 {
	var b [64]byte
	n := runtime.Stack(b[:], false)
	s := b[10:n]
	i := bytes.IndexByte(s, ' ')
	v, _ := strconv.ParseUint(string(s[:i]), 10, 64)
	return v
}

// offset of runtime.g.goid, found at start-up by comparing candidate words of
// the g structure with the id printed in a stack trace, on two different
// goroutines. 0 = not found (fall back to slow).
var offset uintptr

func candidates() map[uintptr]bool {
	g := getg()
	id := slow()
	m := map[uintptr]bool{}
	for off := uintptr(0); off < 512; off += 8 {
		if *(*uint64)(unsafe.Pointer(g + off)) == id {
			m[off] = true
		}
	}
	return m
}

func init() {
	a := candidates()
	ch := make(chan map[uintptr]bool)
	go func() { ch <- candidates() }()
	b := <-ch
	for off := range a {
		if b[off] {
			if offset != 0 {
				offset = 0 // ambiguous
				return
			}
			offset = off
		}
	}
}

// Fast reports whether the cheap path is in use.
func Fast() bool { return offset != 0 }

func Get() uint64 {
	if offset == 0 {
		return slow()
	}
	return *(*uint64)(unsafe.Pointer(getg() + offset))
}
