package verifsim

import (
	"fmt"
	"time"

	mux "github.com/cbeuw/Cloak/internal/multiplex"
	"github.com/cbeuw/Cloak/internal/server/usermanager"
	"github.com/cbeuw/Cloak/internal/simsync"
)

// ---- C17: user bookkeeping never deadlocks and never loses track of a live session ----
//
// W-srv with direct access to the panel operations: admission (GetUser ->
// GetSession), CloseSession, the two steps of a usage upload and user
// termination run as concurrent tasks under statement-level schedules, while
// the real once-a-minute uploader is alive too.

type C17Client struct {
	User     int   `json:"user"`
	Sessions []int `json:"sessions"` // session ids to open and close, in order
	Hold     bool  `json:"hold"`     // keep the last session open until the end
	Traffic  int   `json:"traffic"`  // bytes accounted on the valve per session
}

type C17Scenario struct {
	NUsers   int         `json:"nusers"`
	Clients  []C17Client `json:"clients"`
	Uploads  []int       `json:"uploads"` // per upload task: number of rounds (update queue + commit)
	Caps     []int       `json:"caps"`
	StallPct int         `json:"stall_pct"`
}

func genC17(g *Gen) any {
	sc := &C17Scenario{NUsers: g.Int(1, 2)}
	for u := 0; u < sc.NUsers; u++ {
		sc.Caps = append(sc.Caps, g.Pick(1, 2, 4, 10, 0)) // (0: even a first session is refused)
	}
	nc := g.Int(1, 5)
	for i := 0; i < nc; i++ {
		cl := C17Client{User: g.Int(0, sc.NUsers-1), Hold: g.Bool(0.3), Traffic: g.Pick(0, 1, 100, 5000)}
		for j := 0; j < g.Int(1, 3); j++ {
			cl.Sessions = append(cl.Sessions, g.Int(1, 3))
		}
		sc.Clients = append(sc.Clients, cl)
	}
	nu := g.Int(0, 3)
	for i := 0; i < nu; i++ {
		sc.Uploads = append(sc.Uploads, g.Int(1, 3))
	}
	sc.StallPct = g.Pick(0, 0, 1)
	return sc
}

type c17Sess struct {
	uid  [16]byte
	sid  uint32
	sesh *mux.Session
}

func mkUser(w *SrvWorld, uid []byte, cap int32, upRate, downRate, upCredit, downCredit, expiry int64) error {
	return w.Mgr.WriteUserInfo(usermanager.UserInfo{UID: uid, SessionsCap: usermanager.JustInt32(cap), UpRate: usermanager.JustInt64(upRate), DownRate: usermanager.JustInt64(downRate),
		UpCredit: usermanager.JustInt64(upCredit), DownCredit: usermanager.JustInt64(downCredit), ExpiryTime: usermanager.JustInt64(expiry)})
}

func runC17(c *Ctx, scAny any) { runPanel(c, scAny.(*C17Scenario), false) }

// runPanelUsage is the same workload judged by C16's exactly-once oracle:
// every byte accounted on a valve of a live session is charged to the stored
// credit exactly once, whatever the overlap of collection, commit and
// last-session closure.
func runPanelUsage(c *Ctx, scAny any) { runPanel(c, scAny.(*C17Scenario), true) }

func runPanel(c *Ctx, sc *C17Scenario, usage bool) {
	w := NewSrvWorld(c, SrvParams{WithDB: true})
	defer w.Cleanup()
	uids := make([][]byte, sc.NUsers)
	far := time.Now().Add(1000 * time.Hour).Unix()
	for u := range uids {
		uids[u] = randBytes(c.Rng, 16)
		if err := mkUser(w, uids[u], int32(sc.Caps[u]), 1e8, 1e8, 1e12, 1e12, far); err != nil {
			c.Fail("setup", "db", "%v", err)
			return
		}
	}
	panel := w.Sta.Panel
	var key [32]byte
	obf, _ := mux.MakeObfuscator(mux.EncryptionMethodPlain, key)
	cfg := mux.SessionConfig{Obfuscator: obf, InactivityTimeout: time.Hour}
	var live []c17Sess
	running := 0
	carried := make([]int64, sc.NUsers)
	var held []func()
	for ci, cl := range sc.Clients {
		cl := cl
		if usage {
			// a session of its own per client: nobody else closes it, so every byte
			// below is accounted while the session is live
			cl.Sessions = append([]int(nil), cl.Sessions...)
			for j := range cl.Sessions {
				cl.Sessions[j] += 10 * (ci + 1)
			}
		}
		running++
		simsync.Go("h:client", func() {
			defer func() { running-- }()
			uid := uids[cl.User]
			for i, sid := range cl.Sessions {
				user, err := panel.GetUser(uid)
				if err != nil {
					c.Fail("admission", "getuser", "GetUser for an authorised user with credit: %v", err)
					return
				}
				sesh, _, err := user.GetSession(uint32(sid), cfg)
				if err != nil {
					// sessions cap reached: legitimate refusal; mirror dispatchConnection
					user.CloseSession(uint32(sid), "")
					continue
				}
				var arr [16]byte
				copy(arr[:], uid)
				live = append(live, c17Sess{arr, uint32(sid), sesh})
				if cl.Traffic > 0 {
					user.VerifValve().AddRx(int64(cl.Traffic))
					user.VerifValve().AddTx(int64(cl.Traffic))
					carried[cl.User] += int64(cl.Traffic)
				}
				if cl.Hold && i == len(cl.Sessions)-1 {
					held = append(held, func() {
						// what serveSession does once it finds its session closed under it
						if sesh.IsClosed() {
							user.CloseSession(uint32(sid), "")
						}
					})
					return
				}
				user.CloseSession(uint32(sid), "client done")
			}
		})
	}
	for _, rounds := range sc.Uploads {
		rounds := rounds
		running++
		simsync.Go("h:upload", func() {
			defer func() { running-- }()
			for i := 0; i < rounds; i++ {
				panel.VerifUpdateUsageQueue()
				if err := panel.VerifCommitUpdate(); err != nil {
					c.Fail("upload", "commit-error", "commitUpdate: %v", err)
					return
				}
			}
		})
	}
	ownership := func() string {
		users := panel.VerifUsers()
		seen := map[[16]byte]int{}
		for _, u := range users {
			seen[u.UID]++
			if seen[u.UID] > 1 {
				return fmt.Sprintf("duplicate-record|two active records for one UID")
			}
		}
		for _, ls := range live {
			if ls.sesh.IsClosed() {
				continue
			}
			found := false
			for _, u := range users {
				if u.UID == ls.uid && u.Sessions[ls.sid] == ls.sesh {
					found = true
				}
			}
			if !found {
				return fmt.Sprintf("orphan-session|a live session (user %x, session id %d) is not owned by the active record the server knows for that user: its usage is not reported and it cannot be terminated (active users: %d)", ls.uid[:4], ls.sid, len(users))
			}
		}
		return ""
	}
	c.W.OnIdle = func() string {
		if running > 0 {
			return "" // a task is merely blocked on the database or a lock; not a quiescent moment of the workload
		}
		return ownership()
	}
	end := c.Drive(func() bool { return running == 0 })
	if c.Failed() {
		return
	}
	if end == simsync.EndQuiescent && running > 0 {
		c.Fail("bookkeeping", "blocked-forever", "bookkeeping tasks still blocked at final quiescence\n%s", c.W.DumpTasks())
		return
	}
	if end != simsync.EndDone {
		return
	}
	if !usage {
		if v := ownership(); v != "" {
			c.Fail("bookkeeping", v[:indexOf(v, '|')], "%s", v[indexOf(v, '|')+1:])
		}
		return
	}
	// traffic has stopped: one more complete upload, then the books must balance
	c.W.OnIdle = nil
	final := false
	simsync.Go("h:final-upload", func() {
		for _, f := range held {
			f()
		}
		panel.VerifUpdateUsageQueue()
		if err := panel.VerifCommitUpdate(); err != nil {
			c.Fail("upload", "commit-error", "commitUpdate: %v", err)
		}
		final = true
	})
	// "a usage upload has completed": the final one and every round of the real
	// once-a-minute uploader that started before it (each round is a goroutine
	// started in userpanel.go next to the uploader loop itself)
	settled := func() bool { return final && len(c.W.LiveTasks("internal/server/userpanel.go:")) <= 1 }
	if end = c.Drive(settled); c.Failed() || !settled() {
		return
	}
	for u := range uids {
		info, err := w.Mgr.GetUserInfo(uids[u])
		if err != nil || info.UpCredit == nil || info.DownCredit == nil {
			c.Fail("usage", "user-lost", "user %d: GetUserInfo after the final upload: %v", u, err)
			return
		}
		up, down := int64(1e12)-*info.UpCredit, int64(1e12)-*info.DownCredit
		for d, charged := range []int64{up, down} {
			dir := []string{"upload", "download"}[d]
			switch {
			case charged > carried[u]:
				c.Fail("usage", "charged-twice", "user %d: %s credit charged %d for %d bytes carried (overlapping upload rounds / last-session closure)", u, dir, charged, carried[u])
				return
			case charged < carried[u]:
				c.Fail("usage", "usage-lost", "user %d: %s credit charged %d for %d bytes carried after traffic stopped and a further upload completed", u, dir, charged, carried[u])
				return
			}
		}
	}
	c.Probe("panel-usage-balanced")
}

func indexOf(s string, b byte) int {
	for i := 0; i < len(s); i++ {
		if s[i] == b {
			return i
		}
	}
	return len(s) - 1
}

func init() {
	register(&Family{Name: "c17-panel", Count: func(tier string) int { return map[string]int{"quick": 3000, "thorough": 100000}[tier] },
		Gen: genC17, New: func() any { return &C17Scenario{} }, Run: runC17, VirtCap: 10 * time.Minute,
		Policy: func(g *Gen) simsync.PolicyConfig {
			p := SwarmPolicy(g)
			if g.Bool(0.3) {
				p.Stall = 0.003 // thread stalls: lets the once-a-minute uploader overlap with the rest
			}
			return p
		}})
	// c16-usage under C17: the periodic uploader itself (not its two steps called
	// by hand), with an injected manager error in a tenth of the runs: the rounds
	// after a failed one still reach the manager
	plans["C17"] = []string{"c17-panel", "c16-usage"}
	register(&Family{Name: "c16-overlap", Count: func(tier string) int { return map[string]int{"quick": 2000, "thorough": 100000}[tier] },
		Gen: genC17, New: func() any { return &C17Scenario{} }, Run: runPanelUsage, VirtCap: 10 * time.Minute,
		Policy: func(g *Gen) simsync.PolicyConfig {
			p := SwarmPolicy(g)
			if g.Bool(0.3) {
				p.Stall = 0.003
			}
			return p
		}})
}
