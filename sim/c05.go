package verifsim

import (
	"bytes"
	"encoding/binary"
	"fmt"
	"io"

	"github.com/cbeuw/Cloak/internal/common"
	"github.com/cbeuw/Cloak/internal/simsync"
)

// ---- C05: record framing under any segmentation and concurrent writers ----

type C05Scenario struct {
	// Msgs[w] = lengths of the messages writer w sends, in order
	Msgs   [][]int `json:"msgs"`
	PatKey uint64  `json:"pat_key"`
	// Cuts: scripted segmentation (cumulative byte offsets at which the stream
	// is cut); nil = segmentation decided by the scheduler
	Cuts    []int `json:"cuts,omitempty"`
	ReadBuf int   `json:"read_buf"`
	Dribble bool  `json:"dribble,omitempty"` // scheduler delivers tiny pieces
	// Victim > 0: before the exchange another connection of the process (other
	// session, other user) has a write of that many bytes fail on a dead peer;
	// nothing of it may show on this connection
	Victim int `json:"victim,omitempty"`
}

func c05Msg(key uint64, w, j, n int) []byte {
	b := make([]byte, n)
	fillPat(b, key, uint32(w)<<16|uint32(j), 5, 0)
	if n >= 6 {
		b[0] = 0xC5
		b[1] = byte(w)
		binary.BigEndian.PutUint16(b[2:], uint16(j))
		binary.BigEndian.PutUint16(b[4:], uint16(n))
	}
	return b
}

// the enumerated exchanges: every 1-, 2- and 3-message sequence over these lengths
var c05Lens1 = []int{0, 1, 5, 6, 40, 300}
var c05Lens2 = []int{0, 1, 5, 6, 40}
var c05Lens3 = []int{0, 1, 6, 40}

type c05Exchange struct {
	lens []int
	cuts int // number of single-cut positions = total bytes - 1
}

var c05Exchanges []c05Exchange
var c05Total int

func init() {
	add := func(l ...int) {
		t := 0
		for _, x := range l {
			t += 5 + x
		}
		c05Exchanges = append(c05Exchanges, c05Exchange{append([]int(nil), l...), t - 1})
		c05Total += t - 1
	}
	for _, a := range c05Lens1 {
		add(a)
	}
	for _, a := range c05Lens2 {
		for _, b := range c05Lens2 {
			add(a, b)
		}
	}
	for _, a := range c05Lens3 {
		for _, b := range c05Lens3 {
			for _, c := range c05Lens3 {
				add(a, b, c)
			}
		}
	}
}

func genC05Cuts(g *Gen) any {
	i := g.Idx
	for _, ex := range c05Exchanges {
		if i < ex.cuts {
			return &C05Scenario{Msgs: [][]int{ex.lens}, PatKey: 0xC5, Cuts: []int{i + 1}, ReadBuf: 4096}
		}
		i -= ex.cuts
	}
	panic("index out of range")
}

// the full-size record cut at every position (thorough tier only)
const c05BigLen = 16640

func genC05BigCuts(g *Gen) any {
	return &C05Scenario{Msgs: [][]int{{c05BigLen}}, PatKey: 0xC5B, Cuts: []int{g.Idx + 1}, ReadBuf: 20480}
}

// every message length 6..16640 (6: the pattern header), as the first message of
// a fresh connection and again after another message
func genC05Lengths(g *Gen) any {
	l := 6 + g.Idx
	return &C05Scenario{Msgs: [][]int{{l, 7, l}}, PatKey: 0xC51 + uint64(l), ReadBuf: 20480}
}

func genC05Random(g *Gen) any {
	sc := &C05Scenario{PatKey: g.Rng.Uint64()}
	nw := g.Int(1, 6)
	for w := 0; w < nw; w++ {
		var l []int
		for j := 0; j < g.Int(1, 6); j++ {
			l = append(l, g.Pick(6, 7, 40, 300, 1500, 16640, g.Int(6, 3000)))
		}
		sc.Msgs = append(sc.Msgs, l)
	}
	sc.ReadBuf = g.Pick(20480, 20480, 16640, 4096, 301)
	if sc.PatKey%4 == 0 {
		sc.Victim = int(sc.PatKey>>8)%3000 + 1
	}
	switch g.Int(0, 2) {
	case 0: // random multi-cuts, scripted
		total := 0
		for _, l := range sc.Msgs {
			for _, n := range l {
				total += 5 + n
			}
		}
		k := g.Int(1, 12)
		seen := map[int]bool{}
		for i := 0; i < k && total > 1; i++ {
			c := g.Int(1, total-1)
			if !seen[c] {
				seen[c] = true
				sc.Cuts = append(sc.Cuts, c)
			}
		}
		sortInts(sc.Cuts)
		if nw > 1 {
			sc.Cuts = nil // scripted cuts need a known byte order: single writer only
		}
	case 1:
		sc.Dribble = true
	}
	return sc
}

func sortInts(a []int) {
	for i := 1; i < len(a); i++ {
		for j := i; j > 0 && a[j-1] > a[j]; j-- {
			a[j-1], a[j] = a[j], a[j-1]
		}
	}
}

func runC05(c *Ctx, scAny any) {
	sc := scAny.(*C05Scenario)
	c.Net.TapOn = true
	c.Net.DefaultPartial = true
	a, b := c.Net.Pipe("rec")
	pipe := a.Link().Dir[0]
	wc := common.NewTLSConn(a)
	rc := common.NewTLSConn(b)
	if sc.Victim > 0 {
		va, vb := c.Net.Pipe("victim")
		vb.Close()
		vc := common.NewTLSConn(va)
		junk := make([]byte, sc.Victim)
		for i := range junk {
			junk[i] = 0x5C
		}
		if _, err := vc.Write(junk); err == nil {
			c.Fail("setup", "victim", "a write to a connection whose peer is gone succeeded")
			return
		}
		vc.Close()
		c.Probe("victim_write_failed")
	}
	total := 0
	nmsgs := 0
	for _, l := range sc.Msgs {
		for _, n := range l {
			total += 5 + n
			nmsgs++
		}
	}
	type got struct {
		b   []byte
		err error
	}
	var reads []got
	readerDone := false
	writers := len(sc.Msgs)
	scripted := sc.Cuts != nil
	if scripted {
		pipe.Manual = true
	}
	for w := range sc.Msgs {
		w := w
		simsync.Go("h:writer", func() {
			defer func() { writers-- }()
			for j, n := range sc.Msgs[w] {
				m := c05Msg(sc.PatKey, w, j, n)
				k, err := wc.Write(m)
				if err != nil || k != n {
					c.Fail("framing", "write-error", "writer %d message %d (%d bytes): Write returned (%d, %v)", w, j, n, k, err)
					return
				}
			}
		})
	}
	simsync.Go("h:reader", func() {
		defer func() { readerDone = true }()
		buf := make([]byte, sc.ReadBuf)
		for len(reads) < nmsgs {
			n, err := rc.Read(buf)
			reads = append(reads, got{append([]byte(nil), buf[:n]...), err})
			if err != nil {
				return
			}
		}
	})
	cutIdx := 0
	delivered := 0
	c.W.OnIdle = func() string {
		if !scripted || writers > 0 {
			return ""
		}
		// all messages are in flight: hand over the next scripted segment
		next := total
		if cutIdx < len(sc.Cuts) {
			next = sc.Cuts[cutIdx]
			cutIdx++
		}
		if next > delivered {
			c.Net.ManualDeliver(pipe, next-delivered)
			delivered = next
		}
		return ""
	}
	end := c.Drive(func() bool { return readerDone && writers == 0 })
	if c.Failed() {
		return
	}
	if !readerDone {
		if end == simsync.EndQuiescent {
			c.Fail("framing", "reader-stuck", "reader still blocked at final quiescence after %d of %d messages (all %d bytes were delivered)", len(reads), nmsgs, total)
		}
		return
	}
	// what order did the underlying atomic writes have? parse the tap
	recs, hdrs, rest := splitRecords(pipe.TapBuf)
	if rest != 0 || len(recs) != nmsgs {
		c.Fail("framing", "wire-interleaved", "the wire does not parse into the %d written records (%d records, %d trailing bytes): concurrent writes interleaved or a record was emitted in pieces", nmsgs, len(recs), rest)
		return
	}
	if len(pipe.Bounds) != nmsgs {
		c.Fail("framing", "wire-split-write", "%d messages were put on the wire with %d writes: header and body must leave in one write", nmsgs, len(pipe.Bounds))
		return
	}
	next := make([]int, len(sc.Msgs))
	for i, r := range recs {
		if hdrs[i][0] != 23 || hdrs[i][1] != 3 || hdrs[i][2] != 3 {
			c.Fail("framing", "wire-header", "record %d has header % x", i, hdrs[i])
			return
		}
		if len(sc.Msgs) == 1 {
			want := c05Msg(sc.PatKey, 0, i, sc.Msgs[0][i])
			if !bytes.Equal(r, want) {
				c.Fail("framing", "wire-content", "record %d on the wire differs from message %d", i, i)
				return
			}
			continue
		}
		if len(r) < 6 || r[0] != 0xC5 {
			c.Fail("framing", "wire-interleaved", "record %d on the wire does not start with a message header", i)
			return
		}
		w, j := int(r[1]), int(binary.BigEndian.Uint16(r[2:]))
		if w >= len(sc.Msgs) || j != next[w] || !bytes.Equal(r, c05Msg(sc.PatKey, w, j, sc.Msgs[w][j])) {
			c.Fail("framing", "wire-order", "record %d on the wire is writer %d message %d; expected that writer's message %d, unaltered", i, w, j, next[min(w, len(next)-1)])
			return
		}
		next[w]++
	}
	// the reader must have seen exactly those records, each in one Read
	for i, g := range reads {
		if i >= len(recs) {
			c.Fail("framing", "extra-read", "read %d returned %d bytes beyond the %d messages", i, len(g.b), nmsgs)
			return
		}
		if len(recs[i]) > sc.ReadBuf {
			if g.err == nil || len(g.b) != 0 {
				c.Fail("framing", "short-buffer", "record %d has %d bytes, the reader's buffer %d: Read returned (%d bytes, %v); it must report an error and deliver nothing", i, len(recs[i]), sc.ReadBuf, len(g.b), g.err)
			}
			return // the stream is legitimately unusable afterwards
		}
		if g.err != nil {
			c.Fail("framing", "read-error", "read %d returned %v although the whole exchange was delivered", i, g.err)
			return
		}
		if !bytes.Equal(g.b, recs[i]) {
			c.Fail("framing", "message-altered", "read %d returned %d bytes that differ from the %d-byte message sent %d-th (cuts %v): a message must arrive whole, unaltered, in one read", i, len(g.b), len(recs[i]), i, sc.Cuts)
			return
		}
	}
	if len(reads) != nmsgs {
		c.Fail("framing", "missing-reads", "%d messages sent, %d reads", nmsgs, len(reads))
	}
	_ = io.EOF
	_ = fmt.Sprint
}

func init() {
	pol := func(g *Gen) simsync.PolicyConfig {
		p := SwarmPolicy(g)
		p.Stall = 0
		p.Partial = []float64{0.3, 0.9, 1}[g.Rng.IntN(3)]
		return p
	}
	newSc := func() any { return &C05Scenario{} }
	register(&Family{Name: "c05-cuts", Enumerated: true, Count: func(string) int { return c05Total }, Gen: genC05Cuts, New: newSc, Run: runC05, Policy: pol})
	register(&Family{Name: "c05-bigcuts", Enumerated: true, Count: func(tier string) int {
		if tier == "thorough" {
			return 5 + c05BigLen - 1
		}
		return 0
	}, Gen: genC05BigCuts, New: newSc, Run: runC05, Policy: pol})
	register(&Family{Name: "c05-random", Count: func(tier string) int { return map[string]int{"quick": 3000, "thorough": 100000}[tier] },
		Gen: genC05Random, New: newSc, Run: runC05, Policy: pol})
	register(&Family{Name: "c05-lengths", Enumerated: true, Count: func(string) int { return c05BigLen - 6 + 1 }, Gen: genC05Lengths, New: newSc, Run: runC05, Policy: pol})
	// c12-boundary under C05: a connection that ends inside a record (every
	// position of the enumerated grid, all four methods): the piece that did
	// arrive must never reach the session as if it were a message
	plans["C05"] = []string{"c05-cuts", "c05-bigcuts", "c05-random", "c05-lengths", "c12-boundary"}
}
