package verifsim

import (
	"bufio"
	"bytes"
	"encoding/binary"
	"fmt"
	"net"
	"net/http"
	"net/url"

	"github.com/cbeuw/Cloak/internal/common"
	"github.com/cbeuw/Cloak/internal/simsync"
	"github.com/gorilla/websocket"
)

// ---- C05 over the WebSocket transport connection (common.WebSocketConn) ----
//
// Two real WebSocketConn ends (gorilla client and upgrader, the buffer sizes
// Cloak uses) over one simulated TCP link; 1..6 concurrent writer tasks on one
// end, a reader on the other, in either direction (client frames are masked).
// Oracle: the wire, once de-framed by an independent parser, carries exactly
// the written messages, each whole, per writer in order, fragments of two
// messages never interleaved; every Read returns exactly one message; a
// message larger than the reader's buffer is reported as an error.

type hijackRW struct {
	conn net.Conn
	brw  *bufio.ReadWriter
	hdr  http.Header
}

func (h *hijackRW) Header() http.Header         { return h.hdr }
func (h *hijackRW) Write(b []byte) (int, error) { return h.conn.Write(b) }
func (h *hijackRW) WriteHeader(int)             {}
func (h *hijackRW) Hijack() (net.Conn, *bufio.ReadWriter, error) {
	return h.conn, h.brw, nil
}

// wsFrames parses RFC 6455 frames and reassembles messages.
func wsFrames(b []byte) (msgs [][]byte, problem string) {
	var cur []byte
	inMsg := false
	for len(b) > 0 {
		if len(b) < 2 {
			return msgs, "trailing partial frame header"
		}
		fin, op := b[0]&0x80 != 0, b[0]&0x0f
		if b[0]&0x70 != 0 {
			return msgs, "reserved bits set"
		}
		masked := b[1]&0x80 != 0
		n := int(b[1] & 0x7f)
		off := 2
		switch n {
		case 126:
			if len(b) < 4 {
				return msgs, "trailing partial frame header"
			}
			n = int(binary.BigEndian.Uint16(b[2:]))
			off = 4
		case 127:
			if len(b) < 10 {
				return msgs, "trailing partial frame header"
			}
			n = int(binary.BigEndian.Uint64(b[2:]))
			off = 10
		}
		var mask [4]byte
		if masked {
			if len(b) < off+4 {
				return msgs, "trailing partial frame header"
			}
			copy(mask[:], b[off:])
			off += 4
		}
		if len(b) < off+n {
			return msgs, fmt.Sprintf("frame declares %d payload bytes, %d remain", n, len(b)-off)
		}
		p := append([]byte(nil), b[off:off+n]...)
		if masked {
			for i := range p {
				p[i] ^= mask[i&3]
			}
		}
		b = b[off+n:]
		switch op {
		case 2:
			if inMsg {
				return msgs, "a new binary message starts inside a fragmented one"
			}
			cur, inMsg = p, true
		case 0:
			if !inMsg {
				return msgs, "continuation frame outside a message"
			}
			cur = append(cur, p...)
		default:
			return msgs, fmt.Sprintf("unexpected opcode %d", op)
		}
		if fin {
			msgs = append(msgs, cur)
			cur, inMsg = nil, false
		}
	}
	if inMsg {
		return msgs, "unfinished fragmented message"
	}
	return msgs, ""
}

type C05WSScenario struct {
	C05Scenario
	Masked bool `json:"masked"` // data flows client -> server (masked frames)
}

func genC05WS(g *Gen) any {
	sc := &C05WSScenario{Masked: g.Bool(0.5)}
	sc.PatKey = g.Rng.Uint64()
	nw := g.Int(1, 6)
	for w := 0; w < nw; w++ {
		var l []int
		for j := 0; j < g.Int(1, 6); j++ {
			n := g.Pick(0, 6, 7, 125, 126, 127, 300, 1500, 16000, g.Int(6, 3000))
			if n == 0 && nw > 1 {
				n = 6 // empty messages of several writers could not be told apart on the wire
			}
			l = append(l, n)
		}
		sc.Msgs = append(sc.Msgs, l)
	}
	sc.ReadBuf = g.Pick(20480, 20480, 16000, 4096, 301, 126)
	sc.Dribble = g.Bool(0.3)
	return sc
}

func runC05WS(c *Ctx, scAny any) {
	sc := scAny.(*C05WSScenario)
	c.Net.TapOn = true
	c.Net.DefaultPartial = true
	a, b := c.Net.Pipe("ws")
	var cl, sv *common.WebSocketConn
	hs := 0
	simsync.Go("h:ws-upgrade", func() {
		br := bufio.NewReader(b)
		req, err := http.ReadRequest(br)
		if err != nil {
			c.Fail("setup", "ws-handshake", "server: %v", err)
			return
		}
		up := websocket.Upgrader{ReadBufferSize: 16480, WriteBufferSize: 16480}
		conn, err := up.Upgrade(&hijackRW{b, bufio.NewReadWriter(br, bufio.NewWriter(b)), http.Header{}}, req, nil)
		if err != nil {
			c.Fail("setup", "ws-handshake", "server upgrade: %v", err)
			return
		}
		sv = &common.WebSocketConn{Conn: conn}
		hs++
	})
	simsync.Go("h:ws-dial", func() {
		u, _ := url.Parse("ws://cdn.example.com/path")
		conn, _, err := websocket.NewClient(a, u, http.Header{}, 16480, 16480)
		if err != nil {
			c.Fail("setup", "ws-handshake", "client: %v", err)
			return
		}
		cl = &common.WebSocketConn{Conn: conn}
		hs++
	})
	c.Drive(func() bool { return hs == 2 })
	if c.Failed() || hs != 2 {
		return
	}
	wc, rc := sv, cl
	pipe := a.Link().Dir[1]
	if sc.Masked {
		wc, rc = cl, sv
		pipe = a.Link().Dir[0]
	}
	tap0 := len(pipe.TapBuf)
	// a write to the socket is a point at which the writing goroutine may be
	// descheduled (gorilla itself is not instrumented)
	c.Net.YieldOnWrite = true
	nmsgs := 0
	for _, l := range sc.Msgs {
		nmsgs += len(l)
	}
	type got struct {
		b   []byte
		err error
	}
	var reads []got
	readerDone := false
	writers := len(sc.Msgs)
	for w := range sc.Msgs {
		w := w
		simsync.Go("h:writer", func() {
			defer func() { writers-- }()
			for j, n := range sc.Msgs[w] {
				m := c05Msg(sc.PatKey, w, j, n)
				k, err := wc.Write(m)
				if err != nil || k != n {
					c.Fail("framing", "write-error", "writer %d message %d (%d bytes): Write returned (%d, %v)", w, j, n, k, err)
					return
				}
			}
		})
	}
	simsync.Go("h:reader", func() {
		defer func() { readerDone = true }()
		buf := make([]byte, sc.ReadBuf)
		for len(reads) < nmsgs {
			n, err := rc.Read(buf)
			reads = append(reads, got{append([]byte(nil), buf[:n]...), err})
			if err != nil {
				return
			}
		}
	})
	end := c.Drive(func() bool { return readerDone && writers == 0 })
	if c.Failed() {
		return
	}
	if !readerDone {
		if end == simsync.EndQuiescent {
			c.Fail("framing", "reader-stuck", "reader still blocked at final quiescence after %d of %d messages", len(reads), nmsgs)
		}
		return
	}
	msgs, problem := wsFrames(pipe.TapBuf[tap0:])
	if problem != "" || len(msgs) != nmsgs {
		c.Fail("framing", "wire-interleaved", "the wire does not parse into the %d written messages (%d messages; %s): concurrent writes interleaved or a message was emitted in pieces", nmsgs, len(msgs), problem)
		return
	}
	next := make([]int, len(sc.Msgs))
	for i, r := range msgs {
		w, j := 0, next[0]
		if len(sc.Msgs) > 1 || len(r) >= 6 {
			if len(r) >= 6 && r[0] == 0xC5 {
				w, j = int(r[1]), int(binary.BigEndian.Uint16(r[2:]))
			} else if len(sc.Msgs) > 1 {
				// a short message of several writers: attribute it to any writer whose next message it equals
				found := false
				for ww := range sc.Msgs {
					if next[ww] < len(sc.Msgs[ww]) && bytes.Equal(r, c05Msg(sc.PatKey, ww, next[ww], sc.Msgs[ww][next[ww]])) {
						w, j, found = ww, next[ww], true
						break
					}
				}
				if !found {
					c.Fail("framing", "wire-order", "message %d on the wire (%d bytes) is nobody's next message", i, len(r))
					return
				}
			}
		}
		if w >= len(sc.Msgs) || j != next[w] || j >= len(sc.Msgs[w]) || !bytes.Equal(r, c05Msg(sc.PatKey, w, j, sc.Msgs[w][j])) {
			c.Fail("framing", "wire-order", "message %d on the wire is writer %d message %d; expected that writer's message %d, unaltered", i, w, j, next[min(w, len(next)-1)])
			return
		}
		next[w]++
	}
	for i, g := range reads {
		if i >= len(msgs) {
			c.Fail("framing", "extra-read", "read %d returned %d bytes beyond the %d messages", i, len(g.b), nmsgs)
			return
		}
		if len(msgs[i]) > sc.ReadBuf {
			if g.err == nil {
				c.Fail("framing", "short-buffer", "message %d has %d bytes, the reader's buffer %d: Read returned %d bytes and no error", i, len(msgs[i]), sc.ReadBuf, len(g.b))
			}
			return // the connection is legitimately unusable afterwards
		}
		if g.err != nil {
			c.Fail("framing", "read-error", "read %d returned %v although the whole exchange was delivered", i, g.err)
			return
		}
		if !bytes.Equal(g.b, msgs[i]) {
			c.Fail("framing", "message-altered", "read %d returned %d bytes that differ from the %d-byte message sent %d-th: a message must arrive whole, unaltered, in one read", i, len(g.b), len(msgs[i]), i)
			return
		}
	}
	if len(reads) != nmsgs {
		c.Fail("framing", "missing-reads", "%d messages sent, %d reads", nmsgs, len(reads))
	}
}

func init() {
	pol := func(g *Gen) simsync.PolicyConfig {
		p := SwarmPolicy(g)
		p.Stall = 0
		p.Partial = []float64{0.3, 0.9, 1}[g.Rng.IntN(3)]
		return p
	}
	register(&Family{Name: "c05-ws", Count: func(tier string) int { return map[string]int{"quick": 1500, "thorough": 60000}[tier] },
		Gen: genC05WS, New: func() any { return &C05WSScenario{} }, Run: runC05WS, Policy: pol})
	plans["C05"] = append(plans["C05"], "c05-ws")
}
