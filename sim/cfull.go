package verifsim

import (
	"encoding/binary"
	"fmt"
	"io"
	"math/rand/v2"
	"net"
	"strings"
	"time"

	"github.com/cbeuw/Cloak/internal/client"
	"github.com/cbeuw/Cloak/internal/common"
	mux "github.com/cbeuw/Cloak/internal/multiplex"
	"github.com/cbeuw/Cloak/internal/simsync"
	"github.com/cbeuw/Cloak/verifsim/simnet"
)

// ---- whole-system traffic: proxy client <-> ck-client wiring <-> network <-> ck-server wiring <-> proxy server ----
//
// full-traffic (C01, C10): proxied TCP connections carrying self-describing
// patterns both ways through RouteTCP / serveSession / common.Copy, every
// transport and NumConn, under schedule and delivery search.
// full-faults (C12): the same with a reset or EOF on a transport connection
// (or a stall followed by one); after the fault everything belonging to the
// session must be torn down, and a NEW proxied connection must be served
// again by a fresh session (bounded liveness once faults stop).

type FullTrafficScenario struct {
	Client  ClientParams `json:"client"`
	Conns   []StreamPlan `json:"conns"` // proxied connections (Up = app -> upstream, Down = upstream -> app)
	PatKey  uint64       `json:"pat_key"`
	Partial bool         `json:"partial"`
	Seed    uint64       `json:"seed"`
	// Fault (full-faults only)
	FaultKind  string `json:"fault_kind,omitempty"` // reset | eof0 | eof1
	FaultLink  int    `json:"fault_link,omitempty"`
	FaultDir   int    `json:"fault_dir,omitempty"`
	FaultAfter int    `json:"fault_after,omitempty"` // after that many writes on (link, dir)
	// Congestion (full-traffic): every link has a bounded send window (a writer
	// blocks once that many bytes are outstanding), and after StallAfter writes
	// one transport connection of the session stops delivering in one direction
	// for StallMS - longer than any timeout of the session - then resumes
	Window     int `json:"window,omitempty"`
	StallLink  int `json:"stall_link,omitempty"`
	StallDir   int `json:"stall_dir,omitempty"`
	StallAfter int `json:"stall_after,omitempty"`
	StallMS    int `json:"stall_ms,omitempty"`
}

func genFullTraffic(g *Gen, faults bool) *FullTrafficScenario {
	sc := &FullTrafficScenario{PatKey: g.Rng.Uint64(), Seed: g.Rng.Uint64(), Partial: g.Bool(0.4)}
	cp := ClientParams{Method: "shadowsocks", Encryption: []string{"plain", "aes-gcm", "aes-128-gcm", "chacha20-poly1305"}[g.Rng.IntN(4)],
		Browser: []string{"chrome", "firefox", "safari"}[g.Rng.IntN(3)], Transport: []string{"direct", "direct", "direct", "CDN"}[g.Rng.IntN(4)],
		ServerName: "www.bing.com", NumConn: g.Pick(0, 1, 2, 4, 8)}
	if faults {
		cp.Transport = "direct"
		cp.NumConn = g.Pick(1, 2, 4)
	}
	sc.Client = cp
	n := g.Int(1, 5)
	if g.Tier == "thorough" {
		n = g.Int(1, 12)
	}
	for i := 0; i < n; i++ {
		pl := StreamPlan{SizeClass: g.Int(1, 4), SizeSeed: g.Rng.Uint64(), ReadBuf: g.Pick(512, 3000, 16384, 40000)}
		pl.Up = g.Pick(0, 1, 100, g.Int(0, 30000))
		pl.Down = g.Pick(0, 1, 100, g.Int(0, 30000))
		sc.Conns = append(sc.Conns, pl)
	}
	if !faults && g.Bool(0.2) {
		// long-lived proxied connections: a short StreamTimeout (it bounds only the
		// wait for a connection's first bytes) and connections on which nothing
		// moves for longer than that, in both directions, before traffic resumes
		sc.Client.StreamTimeout = g.Pick(2, 5, 20)
		for i := range sc.Conns {
			sc.Conns[i].Up = max(sc.Conns[i].Up, 2)
			sc.Conns[i].Down = max(sc.Conns[i].Down, 2)
			sc.Conns[i].PauseMS = sc.Client.StreamTimeout*1000 + g.Pick(500, 1500, 30000)
		}
	}
	if !faults && sc.Client.StreamTimeout == 0 && g.Bool(0.12) {
		sc.Client.Transport, sc.Client.NumConn = "direct", g.Pick(2, 2, 4)
		sc.Window = g.Pick(4096, 16384, 65536)
		sc.StallLink, sc.StallDir = g.Int(0, sc.Client.NumConn-1), g.Int(0, 1)
		sc.StallAfter, sc.StallMS = g.Int(2, 12), g.Pick(31000, 45000, 75000)
		for i := range sc.Conns {
			sc.Conns[i].Up = max(sc.Conns[i].Up, g.Int(20000, 150000))
			sc.Conns[i].Down = max(sc.Conns[i].Down, g.Int(20000, 150000))
		}
	}
	if faults {
		sc.FaultKind = []string{"reset", "eof0", "eof1"}[g.Rng.IntN(3)]
		sc.FaultLink = g.Int(0, cp.NumConn-1)
		sc.FaultDir = g.Int(0, 1)
		sc.FaultAfter = g.Int(2, 14)
	}
	return sc
}

const appHdr = 16

func appHeader(tag uint32, up, down int) []byte {
	h := make([]byte, appHdr)
	binary.BigEndian.PutUint32(h, 0xA99A99A9)
	binary.BigEndian.PutUint32(h[4:], tag)
	binary.BigEndian.PutUint32(h[8:], uint32(up))
	binary.BigEndian.PutUint32(h[12:], uint32(down))
	return h
}

type fullConnState struct {
	plan    StreamPlan
	tag     uint32
	appRead int
	upRead  int
	appDone bool // the proxy client side is finished (all read, or the connection ended)
	upDone  bool
	appErr  error
	upErr   error
	upSeen  bool
	acked   bool // the proxy server confirmed that it received the whole upload
	badData string
}

type fullRun struct {
	c     *Ctx
	sc    *FullTrafficScenario
	conns []*fullConnState
	key   uint64
	limit int
}

// pattern upstream: verifies what it receives and produces what was asked.
func (r *fullRun) upstream(conn net.Conn) {
	defer conn.Close()
	hdr := make([]byte, appHdr)
	if _, err := io.ReadFull(conn, hdr); err != nil {
		return
	}
	if binary.BigEndian.Uint32(hdr) != 0xA99A99A9 {
		r.fail("upstream received a connection that does not start with a request header: % x", hdr)
		return
	}
	tag := binary.BigEndian.Uint32(hdr[4:])
	if int(tag) >= len(r.conns) {
		r.fail("upstream: unknown tag %d", tag)
		return
	}
	st := r.conns[tag]
	st.upSeen = true
	up, down := int(binary.BigEndian.Uint32(hdr[8:])), int(binary.BigEndian.Uint32(hdr[12:]))
	if up != st.plan.Up || down != st.plan.Down {
		r.fail("upstream: header of connection %d altered", tag)
		return
	}
	wdone := make(chan struct{})
	simsync.Go("h:upstream-w", func() {
		defer close(wdone)
		ss := &sizeSeq{class: st.plan.SizeClass, limit: r.limit, x: st.plan.SizeSeed + 1}
		paused := st.plan.PauseMS <= 0
		for off := 0; off < down; {
			if !paused && off >= down/2 {
				// a long-lived connection: nothing moves for longer than StreamTimeout
				paused = true
				Sleep(time.Duration(st.plan.PauseMS) * time.Millisecond)
			}
			k := min(ss.next(), down-off)
			buf := make([]byte, k)
			fillPat(buf, r.key, tag, 1, off)
			if _, err := conn.Write(buf); err != nil {
				return
			}
			off += k
		}
	})
	buf := make([]byte, st.plan.ReadBuf)
	for st.upRead < up {
		n, err := conn.Read(buf)
		if n > 0 {
			if st.upRead+n > up || checkPat(buf[:n], r.key, tag, 0, st.upRead) >= 0 {
				r.fail("proxied connection %d, towards the proxy server: bytes at offset %d are not what the proxy client wrote", tag, st.upRead)
				return
			}
			st.upRead += n
		}
		if err != nil {
			st.upErr = err
			break
		}
	}
	Await(wdone)
	if st.upRead == up {
		st.upDone = true
		// acknowledge the complete upload with one byte after the requested download
		conn.Write([]byte{0xAC})
	}
	// stay until the peer goes away (a proxy server keeps the connection)
	io.Copy(io.Discard, conn)
}

func (r *fullRun) fail(format string, a ...any) {
	for _, st := range r.conns {
		if st.badData == "" {
			st.badData = fmt.Sprintf(format, a...)
			return
		}
	}
}

func (r *fullRun) app(st *fullConnState, localAddr string, closeAfter bool) {
	defer func() { st.appDone = true }()
	ad := &simnet.Dialer{Net: r.c.Net, LocalIP: "10.0.7.2", Tag: "app"}
	conn, err := ad.Dial("tcp", localAddr)
	if err != nil {
		st.appErr = err
		return
	}
	simsync.Go("h:app-w", func() {
		if _, err := conn.Write(appHeader(st.tag, st.plan.Up, st.plan.Down)); err != nil {
			return
		}
		ss := &sizeSeq{class: st.plan.SizeClass, limit: r.limit, x: st.plan.SizeSeed}
		paused := st.plan.PauseMS <= 0
		for off := 0; off < st.plan.Up; {
			if !paused && off >= st.plan.Up/2 {
				paused = true
				Sleep(time.Duration(st.plan.PauseMS) * time.Millisecond)
			}
			k := min(ss.next(), st.plan.Up-off)
			buf := make([]byte, k)
			fillPat(buf, r.key, st.tag, 0, off)
			if _, err := conn.Write(buf); err != nil {
				return
			}
			off += k
		}
	})
	buf := make([]byte, st.plan.ReadBuf)
	for st.appRead < st.plan.Down {
		n, err := conn.Read(buf[:min(len(buf), st.plan.Down-st.appRead)])
		if n > 0 {
			if st.appRead+n > st.plan.Down || checkPat(buf[:n], r.key, st.tag, 1, st.appRead) >= 0 {
				st.badData = fmt.Sprintf("proxied connection %d, towards the proxy client: bytes at offset %d are not what the proxy server wrote", st.tag, st.appRead)
				return
			}
			st.appRead += n
		}
		if err != nil {
			st.appErr = err
			return
		}
	}
	// the proxy server acknowledges the complete upload with one more byte
	ack := make([]byte, 2)
	n, err := conn.Read(ack)
	if n != 1 || ack[0] != 0xAC {
		if err == nil {
			st.badData = fmt.Sprintf("proxied connection %d: %d unexpected bytes after the download", st.tag, n)
		}
		st.appErr = err
		return
	}
	st.acked = true
	if closeAfter {
		conn.Close()
	}
}

func runFullTraffic(c *Ctx, scAny any) {
	sc := scAny.(*FullTrafficScenario)
	c.Net.TapOn = true
	c.Net.DefaultPartial = sc.Partial
	cp := sc.Client
	sp := SrvParams{NBypass: 1}
	if sc.Seed%3 == 1 {
		// the server side is the shipped main() of cmd/ck-server, in half of
		// these cases bound to two addresses with the client using the second
		sp.RealMain = true
		if sc.Seed%2 == 0 && !strings.EqualFold(cp.Transport, "cdn") {
			sp.BindAddrs = []string{srvAddr, "10.0.0.2:8443"}
			cp.RemotePort = "8443"
		} else if (sc.Seed>>6)%2 == 0 {
			// started by Shadowsocks as a plugin (SS_* environment)
			sp.PluginMode = true
			sp.ProxyBook = map[string][]string{"shadowsocks": {"tcp", "10.0.0.3:8388"}}
		}
	}
	w := NewSrvWorld(c, sp)
	defer w.Cleanup()
	cp.UID = w.Bypass[0]
	NewEdgeStub(c)
	w.Serve()
	r := &fullRun{c: c, sc: sc, key: sc.PatKey, limit: 16401 - 14 - 255}
	for i, pl := range sc.Conns {
		r.conns = append(r.conns, &fullConnState{plan: pl, tag: uint32(i)})
	}
	simsync.Go("h:upstream", func() {
		for {
			uc, err := w.Upstream["shadowsocks"].Accept()
			if err != nil {
				return
			}
			simsync.Go("h:upstream-conn", func() { r.upstream(uc) })
		}
	})
	simsync.Go("h:target", func() {
		for {
			tc, err := w.Redir.Accept()
			if err != nil {
				return
			}
			tc.Close()
		}
	})
	rng := rand.New(rand.NewPCG(sc.Seed, 21))
	local, remote, auth, err := w.ClientConfig(cp, rng)
	if err != nil {
		c.Fail("config", "rejected", "%v", err)
		return
	}
	local.LocalAddr = "10.0.7.1:1984"
	d := &simnet.Dialer{Net: c.Net, LocalIP: "10.0.6.1", Tag: "front", KeepAlive: remote.KeepAlive}
	var made []*mux.Session
	firstSessionLinks := 0
	if sc.Window > 0 {
		c.Net.SendWindow = sc.Window
		seen := 0
		c.Net.OnLink = func(l *simnet.Link) {
			if l.Tag == "front" || l.Name == "front" {
				if seen == sc.StallLink {
					l.Script = append(l.Script, simnet.ScriptedFault{Dir: sc.StallDir, AfterWrite: sc.StallAfter, Kind: fmt.Sprintf("stall:%d:%d", sc.StallDir, sc.StallMS)})
				}
				seen++
			}
		}
		c.Probe("congested")
	}
	if sc.FaultKind != "" {
		// the fault hits a transport connection of the first session
		seen := 0
		c.Net.OnLink = func(l *simnet.Link) {
			if l.Tag == "front" || l.Name == "front" {
				if seen == sc.FaultLink {
					l.Script = append(l.Script, simnet.ScriptedFault{Dir: sc.FaultDir, AfterWrite: sc.FaultAfter, Kind: sc.FaultKind})
				}
				seen++
			}
		}
	}
	seshMaker := func() *mux.Session {
		a := auth
		quad := make([]byte, 4)
		common.RandRead(a.WorldState.Rand, quad)
		a.SessionId = binary.BigEndian.Uint32(quad)
		s := client.MakeSession(remote, a, d)
		made = append(made, s)
		if len(made) == 1 {
			firstSessionLinks = len(frontLinks(c))
		}
		return s
	}
	listener := c.Net.Listen(local.LocalAddr)
	simsync.Go("h:route", func() { client.RouteTCP(listener, local.Timeout, remote.Singleplex, seshMaker) })
	for _, st := range r.conns {
		st := st
		simsync.Go("h:app", func() { r.app(st, local.LocalAddr, true) })
	}
	allDone := func() bool {
		for _, st := range r.conns {
			if !st.appDone {
				return false
			}
		}
		return true
	}
	faulty := sc.FaultKind != ""
	end := c.Drive(func() bool { return allDone() && (faulty || c.Net.Idle()) })
	if c.Failed() {
		return
	}
	for _, st := range r.conns {
		if st.badData != "" {
			c.Fail("relay-data", "data:mismatch", "%s", st.badData)
			return
		}
	}
	if end == simsync.EndQuiescent && !allDone() {
		c.Fail("relay-liveness", "stuck", "proxied connections still waiting at final quiescence (fault %q)\n%s", sc.FaultKind, c.W.DumpTasks())
		return
	}
	if end != simsync.EndDone {
		return
	}
	fired := c.Net.Fired["reset"] > 0 || c.Net.Fired["eof"] > 0
	if !faulty || !fired {
		// healthy network: every connection must have been relayed completely, both ways
		if sc.StallMS > 0 && sc.StallDir == 0 && c.Net.Fired["stall"] > 0 {
			// (correction of a false alarm, VERIF_SEED=77 full-traffic 355: every stream
			// had been assigned to the connection that then stalled towards the server
			// before a single frame got through. The server never learnt of a stream
			// and, as documented, its inactivity timer closed the stream-less session
			// while the stall - longer than that timer by construction - still lasted.
			// Nothing was relayed and nothing wrong was relayed: not a verdict.)
			none := true
			for _, st := range r.conns {
				none = none && st.upRead == 0 && st.appRead == 0
			}
			if none {
				c.Probe("stall_before_first_frame")
				return
			}
		}
		for _, st := range r.conns {
			if st.appRead != st.plan.Down || st.appErr != nil || !st.acked || st.upRead != st.plan.Up {
				c.Fail("relay-data", "data:incomplete", "proxied connection %d: the proxy client received %d of %d bytes (%v), the proxy server %d of %d (acknowledged: %v) on a healthy network (transport %s, NumConn %d)", st.tag, st.appRead, st.plan.Down, st.appErr, st.upRead, st.plan.Up, st.acked, cp.Transport, cp.NumConn)
				return
			}
		}
		if !strings.EqualFold(cp.Transport, "cdn") {
			for _, l := range frontLinks(c) {
				method := map[string]byte{"plain": 0, "aes-gcm": 1, "aes-128-gcm": 3, "chacha20-poly1305": 2}[cp.Encryption]
				_ = method
				if msg := checkDirectWire(l, nil, cp, w); msg != "" {
					sig := msg[:strings.Index(msg, "|")]
					c.Fail("wire", sig, "%s", msg[len(sig)+1:])
					return
				}
			}
		}
		c.Probe("relayed:" + strings.ToLower(cp.Transport) + fmt.Sprintf(":numconn%d", cp.NumConn))
		return
	}
	// ---- a fault fired: teardown, then service must resume ----
	c.Probe("fault_fired:" + sc.FaultKind)
	settled := false
	simsync.Go("h:settle", func() { Sleep(2 * time.Second); settled = true })
	c.Drive(func() bool { return settled })
	if c.Failed() {
		return
	}
	if len(made) > 0 && !made[0].IsClosed() {
		c.Fail("teardown", "session-survived-fault", "a transport connection of the session failed (%s) but the client's session is still open", sc.FaultKind)
		return
	}
	front := frontLinks(c)
	for i := 0; i < firstSessionLinks && i < len(front); i++ {
		for s := 0; s < 2; s++ {
			if !front[i].Ends[s].IsClosed() {
				c.Fail("teardown", "conn-left-open", "after the fault, transport connection %d of the failed session is still open on side %d", i, s)
				return
			}
		}
	}
	// bounded liveness once faults stop: a new proxied connection is served by a fresh session
	probe := &fullConnState{plan: StreamPlan{Up: 700, Down: 900, SizeClass: 1, SizeSeed: 5, ReadBuf: 4096}, tag: uint32(len(r.conns))}
	r.conns = append(r.conns, probe)
	simsync.Go("h:app-after", func() { r.app(probe, local.LocalAddr, true) })
	end = c.Drive(func() bool { return probe.appDone })
	if c.Failed() {
		return
	}
	if !probe.appDone || probe.appRead != probe.plan.Down || !probe.acked {
		c.Fail("teardown", "no-service-after-fault", "after the fault and the teardown, a new proxied connection was not served (received %d of %d bytes, %v %s; proxy server saw it: %v, got %d; end=%v)\n%s", probe.appRead, probe.plan.Down, probe.appErr, probe.badData, probe.upSeen, probe.upRead, end, c.W.DumpTasks())
		return
	}
	c.Probe("served_after_fault")
}

func init() {
	pol := func(g *Gen) simsync.PolicyConfig {
		p := SwarmPolicy(g)
		p.Stall = 0
		return p
	}
	newSc := func() any { return &FullTrafficScenario{} }
	register(&Family{Name: "full-traffic", Count: func(tier string) int { return map[string]int{"quick": 600, "thorough": 20000}[tier] },
		Gen: func(g *Gen) any { return genFullTraffic(g, false) }, New: newSc, Run: runFullTraffic, Policy: pol, VirtCap: 20 * time.Minute, MaxSteps: 800000})
	register(&Family{Name: "full-faults", Count: func(tier string) int { return map[string]int{"quick": 600, "thorough": 20000}[tier] },
		Gen: func(g *Gen) any { return genFullTraffic(g, true) }, New: newSc, Run: runFullTraffic, Policy: pol, VirtCap: 20 * time.Minute, MaxSteps: 800000})
	plans["C01"] = append(plans["C01"], "full-traffic")
	plans["C10"] = append(plans["C10"], "full-traffic")
	// C03 end to end: a proxied connection's bytes all arrive before its end
	plans["C03"] = append(plans["C03"], "full-traffic")
	// C03 under faults ("once a side has closed the stream its blocked reads
	// return", whatever happens to the closing frame on its way out): the random
	// fault family of C12 closes streams under blocked readers while connections fail
	plans["C03"] = append(plans["C03"], "c12-random")
	plans["C12"] = append(plans["C12"], "full-faults")
}
