#!/usr/bin/env python3
"""Regenerates /verif/MANIFEST.json from the table below (kept valid at all times)."""
import json

TECH = "deterministic simulation with fault injection"
CLAIMED = {
    "C01": ("exploration",
            "seeded search over goroutine schedules (statement level), cross-connection delivery orders, segmentations, stalls and late-joining connections of two real mux.Sessions exchanging self-describing byte patterns through Write, ReadFrom and common.Copy; every Read is checked against the expected continuation, any error or session close on a healthy session is a violation, final quiescence with undelivered data is a liveness violation",
            "5 C01", "sampled, not exhaustive; statement-level interleavings; reliable ordered connections",
            "seeded schedule/delivery search, self-describing payload oracle"),
    "C03": ("exploration",
            "seeded search over schedules and delivery orders of streams that are written and then closed by the client, the server or both (multiplexed on 1..8 connections and singleplex): the side that did not close must read exactly the written bytes and then the broken-stream error; writes after an observed close must fail; bytes that had arrived before a local Close must stay readable; blocked readers must return",
            "5 C03", "sampled; in singleplex the closer first consumes the peer's bytes (closing the only stream closes the connection)",
            "seeded schedule/delivery search, close-ordering oracle"),
    "C02": ("fault_enumeration",
            "every arrival permutation of n<=5 (quick) / n<=6 (thorough) frames x closing frame present or not x three reader policies (read after all, drain after each arrival, reader task interleaved by the scheduler at statement level) x three first sequence numbers (0, 2^32-3, 2^64-n-1): complete enumeration; plus sampled permutations of up to 64 frames. The arriving payload aliases a buffer the harness overwrites after Write returns (as deplex reuses its buffer). Oracle: bytes read equal the payloads in sequence order, Write reports the close exactly at the arrival that completes the lower-numbered frames, nothing stays parked",
            "5 C02", "reader interleavings in the concurrent policy are sampled per case, not enumerated; duplicated frames are outside the property's premise",
            "complete enumeration of arrival orders + seeded reader interleavings"),
    "C04": ("fault_enumeration",
            "every payload length 1..max (max=1531 for a 1800-byte limit in quick, 16132 for the shipped 16401 in thorough) x four methods x both buffer placements, with sequence numbers on both sides of the padding threshold, random stream ids and closing flags: Cloak's encoder output is decoded by an independent reference codec (layout, padding rule, size limit), round-tripped by Cloak's decoder, and the reference encoder's output is decoded by Cloak (complete enumeration; this part is input enumeration riding along, see DESIGN.md). Simulation part: worlds in which one endpoint of the session is the independent reference peer, under the C01 workload and schedule/delivery search, in both directions",
            "5 C04", "the reference codec and peer are written from the protocol description; their correctness is part of the trusted base",
            "length enumeration against a reference codec + mixed-implementation simulated sessions"),
    "C05": ("fault_enumeration",
            "every 1-, 2- and 3-message exchange over lengths {0,1,5,6,40(,300)} cut at every byte position (complete; thorough adds a full-size 16640-byte record cut at every position), each reader-side; plus random exchanges with 1..6 concurrent writer tasks on one TLSConn (statement-level schedules), scripted multi-cuts, scheduler-chosen partial deliveries and coalescing, reader buffers smaller than a record. Oracle: one Read = one message, whole and in wire order; the wire parses into exactly the written records, one underlying write each; an over-long record yields an error and no data",
            "5 C05", "TLSConn framing only in this check; the WebSocket framing runs under C06/C10/C20 worlds",
            "cut-position enumeration + seeded writer schedules, wire tap parse"),
    "C11": ("fault_enumeration",
            "for each AEAD method x five kinds of genuine message (in-order data, future data, closing, first frame of a new stream, session-closing) x payload sizes 1/16/100: every single-bit flip at every position (complete: 30840 cases), injected on an extra connection of a primed session at a quiescent moment; plus sampled truncations, extensions, multi-byte edits, re-sealing under another key or method and arbitrary byte strings of 0..20480 bytes under all four methods. Oracle under AEAD: the digest of the receiving session's logical state is unchanged by the forged record and the genuine message is still processed afterwards; under plain: no panic. Two open known findings (header bytes 12 and 13 are not authenticated)",
            "5 C11", "bit flips are complete for the listed message shapes, sampled for large/padded messages",
            "forged-record injection enumeration, state-digest oracle"),
    "C14": ("exploration",
            "unordered sessions on 1..8 connections, 1..4 streams, concurrent senders in both directions, datagram sizes dense around the per-frame maximum and above it, reader buffers around the datagram size, all four methods, random delivery order/segmentation. Oracle: every Read returns exactly one datagram written on that stream, at most once; on a healthy session every accepted datagram arrives; an accepted Write puts exactly one record <= limit carrying the whole datagram on the wire, a refused one nothing; a short buffer reports io.ErrShortBuffer and the next adequate Read returns that same datagram",
            "5 C14", "client.RouteUDP needs a concrete *net.UDPConn and cannot run in the bubble: its per-source-address stream map is not covered",
            "seeded schedule/delivery search, datagram identity oracle + wire tap"),
    "C19": ("exploration",
            "1..3 sessions x 1..4 connections x 1..4 streams share one LimitedValve (rates log-uniform in 16640 B/s..10 MB/s) with backlogged senders both ways on the bubble clock. Oracle: for every pair of events, server->client message bytes written to the simulated wire, and client->server records released by the limiter (time of the first read after the record was consumed), stay within rate*dt*1.01 + one second of burst; application-level receipt is bounded from time zero; a backlogged sender over >=20 virtual seconds gets >=95% of the rate",
            "5 C19", "virtual time only passes when no task can run (no thread stall between token wait and write); rates below one maximal record per second are not exercised",
            "virtual-clock envelope check over all event pairs"),
    "C07": ("fault_enumeration",
            "W-auth (real server.State, real client first packets built through ProcessRawConfig + Handshake): every single-bit flip of a valid firefox and safari ClientHello and of the WebSocket request (chrome in thorough) presented to AuthFirstPacket on a fresh state (complete), plus sampled multi-byte edits, truncations, wrong server key, and client/server clock offsets at +-179/180/181 s crossed with sub-second phases of the server clock, incl. exactly on the open window ends. Oracle: a packet whose authentication-carrying bytes (ephemeral key, session id, X25519 key share / hidden header) differ from what the client sent is never accepted; other flips may go either way but must yield the original identity; acceptance iff the timestamp is strictly inside the window. The authorisation half (unknown UID, unknown proxy method: relay to the redirect target, nothing written) is decided in W-srv by C09's peers cloak-unauth-uid / cloak-bad-method and C15's credit/expiry cases",
            "5 C07", "admin-UID gating (session id 0) is exercised by C18's admin-session family when present; bit flips are complete per signature, edits sampled",
            "in-transit corruption enumeration + clock-skew sweep, independent auth model"),
    "C08": ("exploration",
            "W-auth with the real UsedRandomCleaner goroutine inside the bubble (12 h cost microseconds): histories of presentations of one packet at virtual times spanning the whole interval in which its timestamp stays acceptable, with the first presentation placed at drawn phases around the 12 h clean-ups (e.g. 0.5 s before), server and client clock offsets, 1..16 tasks presenting at once (also the very first presentation) under statement-level schedules; plus every single-bit variant of a firefox hello (all three browsers in thorough) presented after the genuine one. Oracle: per sealed identity block at most one acceptance while its timestamp is inside the window",
            "5 C08", "sampled histories; altered copies complete per enumerated signature",
            "virtual-clock history search + altered-copy enumeration"),
    "C09": ("exploration",
            "W-srv: the real server.Serve loop, a scripted redirect target and 1..3 adversarial peers per run: random bytes, every first-byte value (complete family), TLS records of any declared length (<=, =, > buffer), foreign hellos, truncated / auth-field-damaged / structurally fuzzed / key_share-damaged / replayed Cloak hellos, valid hellos with unauthorised UID or unknown proxy method, HTTP GETs with and without bogus hidden, over-long lines; drawn segmentation, pacing (up to 5 s gaps, stalls inside the first packet), peers that stay, close or stall, target reply scripts and who closes first. Oracle = a plain TCP relay: the target receives a prefix of the peer's stream (all of it for a patient peer with a complete first packet), the peer receives exactly a prefix of the target's bytes (no server-originated byte), the upstream proxy is never contacted, no panic, no peer wedged and no server task left at final quiescence",
            "5 C09", "redirect-dial failure is not injected (the property presupposes a reachable target)",
            "adversarial-peer simulation against a reference relay"),
    "C15": ("exploration",
            "W-srv with limited users in real bbolt: 2..24 real client handshakes (three browser signatures) released together for 1..4 (UID, session id) pairs, after optional pinned sessions and an optional virtual delay during which an active user's expiry passes; caps 0..4, exhausted credit, past expiry, skewed server clock. Oracle: the partition of successful clients by session key equals the partition by (UID, session id); after every scheduler step no limited user has more sessions than its cap; unauthorised users never complete a handshake; when everything fits under the cap nobody is refused",
            "5 C15", "closures during the burst are left to C17/C12; expectations within 25 s of an expiry instant are skipped",
            "seeded schedule search over simultaneous handshakes, per-step cap invariant"),
    "C16": ("exploration",
            "W-srv with real clients (client.MakeSession), 1..3 limited users, 1..4 sessions of 1..3 connections and streams moving up to 100 kB each way through a proxy upstream, session closes (incl. a user's last), sessions starting around upload ticks, top-ups / deletions / expiry edits and an optional database error, with the real once-a-minute uploader on the bubble clock for 200 virtual seconds. Oracle (interval, mirrors no overhead constant): per user and direction, bytes delivered to the far application <= initial - stored credit <= bytes on that user's connections (payload > half the wire total, so double charging cannot hide); with the database fault only the upper bound; a user whose stored credit is exhausted, who is expired or deleted has no live session two upload rounds later",
            "5 C16", "virtual time passes only at quiescence in this family (overlapping upload rounds are C17's)",
            "conservation interval oracle over simulated traffic and virtual-time uploads"),
    "C17": ("exploration",
            "W-srv with direct access to the panel operations: admission (GetUser -> GetSession), CloseSession, the two steps of a usage upload (1..3 extra upload tasks, 1..3 rounds each) and the real once-a-minute uploader, for 1..2 limited users, 1..5 client tasks opening/closing session ids 1..3, under statement-level schedules with thread stalls. Oracles: a cycle in the wait-for graph over Cloak's mutexes is a deadlock (reported with tasks, locks and acquisition sites); at quiescent moments every live session is owned by the single active record the panel knows for its UID; no task blocked at final quiescence",
            "5 C17", "panel operations are driven through an accessor rather than through real connections (C15/C16 drive the dispatcher path)",
            "seeded schedule search, wait-for-graph deadlock detector, ownership invariant"),
    "C18": ("exploration",
            "W-db: real bbolt LocalManager on a scratch directory behind the real APIRouter (ServeHTTP called directly) and the real userPanel. Operation histories of up to 40 (quick) / 400 (thorough) steps over three UIDs: POST with any subset of the six fields and values from {0, +-1, int32/int64 extremes, random}, GET, list, DELETE, malformed JSON, path/body UID mismatch, bad base64, direct manager calls, close and reopen at drawn points. After every step every read the API offers is compared with a reference key-value model (partial-update semantics; unset fields read as zero); after every mutation and reopen the 'owner connects / is listed / has usage uploaded' probes run (GetUser incl. MakeValve, GetSession incl. AuthoriseNewSession, ListAllUsers, UploadStatus) and any panic is a violation",
            "5 C18", "single admin client (operation order and restart points are the only nondeterminism); crash = clean close/reopen, bbolt's own crash consistency is not under test",
            "operation-history simulation against a reference key-value model with restarts"),
    "C12": ("fault_enumeration",
            "reset / EOF injected on each connection and direction after each of the first 14 writes and at 14 byte offsets inside records of a fixed exchange (complete enumeration of that space, each case under a drawn schedule), plus random workloads with scripted or scheduler-chosen resets/EOFs, Session.Close from either side racing with OpenStream/Read/Write/Accept/Stream.Close, stream churn and inactivity-timer phases (1..30 s virtual). Oracles: readers see a prefix then an error, no task left blocked at final quiescence, both sessions and every connection end up closed, OpenStream refused afterwards, stream-table/open-count equality at every quiescent moment, inactivity close only with zero open streams and no later than one timeout",
            "5 C12", "fault positions outside the enumerated grid are sampled; backpressure stalls that never end are not injected",
            "fault enumeration over frame boundaries/offsets + seeded schedule search"),
    "C13": ("exploration",
            "2..8 tasks Write (multi-frame), ReadFrom and Close the same streams concurrently under statement-level schedules; every record the sender put on the simulated wire is decoded by an independent reference codec: per stream and direction the numbers are 0,1,2,... each once (gaps only after failed sends), payloads in number order parse back into whole, contiguous, per-writer-ordered write ops, the closing frame is numbered after every write that returned before Close was called, and no (stream id, number) pair repeats under one key",
            "5 C13", "sampled; frames a ReadFrom sends after passing its closed-check (numbered after the closing frame) are not judged",
            "seeded schedule search, wire-tap decoded by reference codec"),
}

NOT_YET = "check under construction in this session (simulation applies; see DESIGN.md 5)"

props = [json.loads(l)["id"] for l in open("/verif/properties.jsonl")]
checks = []
for p in props:
    if p in CLAIMED:
        lvl, text, ref, note, tech = CLAIMED[p]
        checks.append({
            "property_id": p,
            "quick_cmd": f"/verif/bin/verif check {p} --tier quick",
            "thorough_cmd": f"/verif/bin/verif check {p} --tier thorough",
            "evidence_file": f"/verif/evidence/{p}.json",
            "replay_cmd_template": "/verif/bin/verif replay {path}",
            "engine": "cloak-dst",
            "level_claimed": {"category": lvl, "text": text, "design_ref": "DESIGN.md " + ref},
            "level_note": note,
            "technique": TECH + ": " + tech,
        })
na = [{"property_id": p, "reason": NOT_YET} for p in props if p not in CLAIMED]
m = {
    "version": 1,
    "setup_cmd": "/verif/setup.sh",
    "hooks": {
        "guard": "verif",
        "enable": "no source change in /repo: each check instruments the working tree into /verif/.build/<id>/ and compiles it with `go test -tags verif -overlay overlay.json`; accessor files (build tag verif) and the simsync scheduler are added to the Cloak packages by the overlay only",
        "baseline_off_cmd": "cd /repo && GOFLAGS=-mod=mod go test -vet=off -count=1 -timeout 25m ./...",
        "source_commits": [],
        "add_only": True,
    },
    "engines": [{
        "name": "cloak-dst", "path": "/verif/bin/verif", "serves_properties": sorted(CLAIMED),
        "kind_free_text": "deterministic simulation with fault injection: instrumented real code under a seeded cooperative scheduler, virtual clock (testing/synctest), adversarial in-memory network, seeded entropy, real bbolt",
    }],
    "checks": checks,
    "not_applicable": na,
    "notes": "All checks go through /verif/bin/verif (built by setup.sh). VERIF_SEED, VERIF_TIER, VERIF_REPO, VERIF_WORKERS, VERIF_BUDGET_S are honoured. Genuine defects repaired in /repo are 'fix:' commits listed in known_findings.json.",
}
json.dump(m, open("/verif/MANIFEST.json", "w"), indent=1)
print("claimed:", sorted(CLAIMED), "not yet:", [x["property_id"] for x in na])
