#!/usr/bin/env python3
"""Regenerates /verif/MANIFEST.json from the table below (kept valid at all times)."""
import json

TECH = "deterministic simulation with fault injection"
CLAIMED = {
    "C01": ("exploration",
            "seeded search over goroutine schedules (statement level), cross-connection delivery orders, segmentations, stalls and late-joining connections of two real mux.Sessions exchanging self-describing byte patterns through Write, ReadFrom and common.Copy; every Read is checked against the expected continuation, any error or session close on a healthy session is a violation, final quiescence with undelivered data is a liveness violation",
            "5 C01", "sampled, not exhaustive; statement-level interleavings; reliable ordered connections",
            "seeded schedule/delivery search, self-describing payload oracle"),
    "C03": ("exploration",
            "seeded search over schedules and delivery orders of streams that are written and then closed by the client, the server or both (multiplexed on 1..8 connections and singleplex): the side that did not close must read exactly the written bytes and then the broken-stream error; writes after an observed close must fail; bytes that had arrived before a local Close must stay readable; blocked readers must return",
            "5 C03", "sampled; in singleplex the closer first consumes the peer's bytes (closing the only stream closes the connection)",
            "seeded schedule/delivery search, close-ordering oracle"),
    "C12": ("fault_enumeration",
            "reset / EOF injected on each connection and direction after each of the first 14 writes and at 14 byte offsets inside records of a fixed exchange (complete enumeration of that space, each case under a drawn schedule), plus random workloads with scripted or scheduler-chosen resets/EOFs, Session.Close from either side racing with OpenStream/Read/Write/Accept/Stream.Close, stream churn and inactivity-timer phases (1..30 s virtual). Oracles: readers see a prefix then an error, no task left blocked at final quiescence, both sessions and every connection end up closed, OpenStream refused afterwards, stream-table/open-count equality at every quiescent moment, inactivity close only with zero open streams and no later than one timeout",
            "5 C12", "fault positions outside the enumerated grid are sampled; backpressure stalls that never end are not injected",
            "fault enumeration over frame boundaries/offsets + seeded schedule search"),
    "C13": ("exploration",
            "2..8 tasks Write (multi-frame), ReadFrom and Close the same streams concurrently under statement-level schedules; every record the sender put on the simulated wire is decoded by an independent reference codec: per stream and direction the numbers are 0,1,2,... each once (gaps only after failed sends), payloads in number order parse back into whole, contiguous, per-writer-ordered write ops, the closing frame is numbered after every write that returned before Close was called, and no (stream id, number) pair repeats under one key",
            "5 C13", "sampled; frames a ReadFrom sends after passing its closed-check (numbered after the closing frame) are not judged",
            "seeded schedule search, wire-tap decoded by reference codec"),
}

NOT_YET = "check under construction in this session (simulation applies; see DESIGN.md 5)"

props = [json.loads(l)["id"] for l in open("/verif/properties.jsonl")]
checks = []
for p in props:
    if p in CLAIMED:
        lvl, text, ref, note, tech = CLAIMED[p]
        checks.append({
            "property_id": p,
            "quick_cmd": f"/verif/bin/verif check {p} --tier quick",
            "thorough_cmd": f"/verif/bin/verif check {p} --tier thorough",
            "evidence_file": f"/verif/evidence/{p}.json",
            "replay_cmd_template": "/verif/bin/verif replay {path}",
            "engine": "cloak-dst",
            "level_claimed": {"category": lvl, "text": text, "design_ref": "DESIGN.md " + ref},
            "level_note": note,
            "technique": TECH + ": " + tech,
        })
na = [{"property_id": p, "reason": NOT_YET} for p in props if p not in CLAIMED]
m = {
    "version": 1,
    "setup_cmd": "/verif/setup.sh",
    "hooks": {
        "guard": "verif",
        "enable": "no source change in /repo: each check instruments the working tree into /verif/.build/<id>/ and compiles it with `go test -tags verif -overlay overlay.json`; accessor files (build tag verif) and the simsync scheduler are added to the Cloak packages by the overlay only",
        "baseline_off_cmd": "cd /repo && GOFLAGS=-mod=mod go test -vet=off -count=1 -timeout 25m ./...",
        "source_commits": [],
        "add_only": True,
    },
    "engines": [{
        "name": "cloak-dst", "path": "/verif/bin/verif", "serves_properties": sorted(CLAIMED),
        "kind_free_text": "deterministic simulation with fault injection: instrumented real code under a seeded cooperative scheduler, virtual clock (testing/synctest), adversarial in-memory network, seeded entropy, real bbolt",
    }],
    "checks": checks,
    "not_applicable": na,
    "notes": "All checks go through /verif/bin/verif (built by setup.sh). VERIF_SEED, VERIF_TIER, VERIF_REPO, VERIF_WORKERS, VERIF_BUDGET_S are honoured. Genuine defects repaired in /repo are 'fix:' commits listed in known_findings.json.",
}
json.dump(m, open("/verif/MANIFEST.json", "w"), indent=1)
print("claimed:", sorted(CLAIMED), "not yet:", [x["property_id"] for x in na])
