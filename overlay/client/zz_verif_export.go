//go:build verif

// Accessors for the /verif simulator (added through the build overlay only).
package client

// VerifAuthPayload exposes the authentication payload a client would embed in
// its first packet (fresh ephemeral key, current timestamp).
func VerifAuthPayload(authInfo AuthInfo) (randPubKey [32]byte, ciphertextWithTag [64]byte, sharedSecret [32]byte) {
	p, s := makeAuthenticationPayload(authInfo)
	return p.randPubKey, p.ciphertextWithTag, s
}

func (t TransportConfig) VerifMode() string  { return t.mode }
func (t TransportConfig) VerifWsUrl() string { return t.wsUrl }
func (t TransportConfig) VerifBrowser() int  { return int(t.browser) }
