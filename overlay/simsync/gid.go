package simsync

import gid "github.com/cbeuw/Cloak/verifsim/goid"

func goid() uint64 { return gid.Get() }

// FastGoid reports whether goroutine ids are read directly from the runtime's
// g structure (calibrated at start-up) rather than parsed from stack traces.
func FastGoid() bool { return gid.Fast() }

// CurrentTaskName returns the name of the calling task ("" outside a world).
func CurrentTaskName() string {
	w := W
	if w == nil {
		return ""
	}
	return w.self().Name
}
