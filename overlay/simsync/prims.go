package simsync

import (
	"cmp"
	"fmt"
	"slices"
	"sync"
)

type lockOwners interface{ owners() []*Task }

// Mutex replaces sync.Mutex in instrumented code.
type Mutex struct {
	held    bool
	owner   *Task
	site    string
	waiters []*Task
	real    sync.Mutex
}

func (m *Mutex) owners() []*Task { return []*Task{m.owner} }

func (m *Mutex) Lock() {
	w := W
	if w == nil {
		m.real.Lock()
		return
	}
	t := w.self()
	for {
		w.mu.Lock()
		if !m.held {
			m.held = true
			m.owner = t
			m.site = t.Site
			w.mu.Unlock()
			return
		}
		if w.stopping {
			w.mu.Unlock()
			return
		}
		m.waiters = append(m.waiters, t)
		w.blockOn(t, m, fmt.Sprintf("mutex held by %s since %s", m.owner.Name, m.site))
	}
}

func (m *Mutex) TryLock() bool {
	w := W
	if w == nil {
		return m.real.TryLock()
	}
	t := w.self()
	w.mu.Lock()
	defer w.mu.Unlock()
	if m.held {
		return false
	}
	m.held = true
	m.owner = t
	m.site = t.Site
	return true
}

func (m *Mutex) Unlock() {
	w := W
	if w == nil {
		m.real.Unlock()
		return
	}
	w.mu.Lock()
	if !m.held {
		stopping := w.stopping
		w.mu.Unlock()
		if stopping {
			return // unwound out of Lock by Goexit: the deferred Unlock is harmless
		}
		panic("simsync: unlock of unlocked mutex")
	}
	m.held = false
	m.owner = nil
	ws := m.waiters
	m.waiters = nil
	w.makeRunnable(ws)
	w.mu.Unlock()
}

// RWMutex replaces sync.RWMutex; like Go's it is writer-preferring: a pending
// writer blocks new readers.
type RWMutex struct {
	writer   *Task
	wheld    bool
	readers  []*Task
	wWaiting int
	waiters  []*Task
	site     string
	real     sync.RWMutex
}

func (m *RWMutex) owners() []*Task {
	if m.wheld {
		return []*Task{m.writer}
	}
	return m.readers
}

func (m *RWMutex) desc() string {
	if m.wheld {
		return fmt.Sprintf("rwmutex write-held by %s since %s", m.writer.Name, m.site)
	}
	if len(m.readers) > 0 {
		return fmt.Sprintf("rwmutex read-held by %s (+%d) since %s", m.readers[0].Name, len(m.readers)-1, m.site)
	}
	return "rwmutex with pending writer"
}

func (m *RWMutex) Lock() {
	w := W
	if w == nil {
		m.real.Lock()
		return
	}
	t := w.self()
	w.mu.Lock()
	m.wWaiting++
	for m.wheld || len(m.readers) > 0 {
		if w.stopping {
			m.wWaiting--
			w.mu.Unlock()
			return
		}
		m.waiters = append(m.waiters, t)
		w.blockOn(t, m, m.desc())
		w.mu.Lock()
	}
	m.wWaiting--
	m.wheld = true
	m.writer = t
	m.site = t.Site
	w.mu.Unlock()
}

func (m *RWMutex) Unlock() {
	w := W
	if w == nil {
		m.real.Unlock()
		return
	}
	w.mu.Lock()
	if !m.wheld {
		stopping := w.stopping
		w.mu.Unlock()
		if stopping {
			return
		}
		panic("simsync: unlock of unlocked rwmutex")
	}
	m.wheld = false
	m.writer = nil
	ws := m.waiters
	m.waiters = nil
	w.makeRunnable(ws)
	w.mu.Unlock()
}

func (m *RWMutex) RLock() {
	w := W
	if w == nil {
		m.real.RLock()
		return
	}
	t := w.self()
	w.mu.Lock()
	for m.wheld || m.wWaiting > 0 {
		if w.stopping {
			w.mu.Unlock()
			return
		}
		m.waiters = append(m.waiters, t)
		w.blockOn(t, m, m.desc())
		w.mu.Lock()
	}
	m.readers = append(m.readers, t)
	m.site = t.Site
	w.mu.Unlock()
}

func (m *RWMutex) RUnlock() {
	w := W
	if w == nil {
		m.real.RUnlock()
		return
	}
	t := w.self()
	w.mu.Lock()
	if len(m.readers) == 0 {
		stopping := w.stopping
		w.mu.Unlock()
		if stopping {
			return
		}
		panic("simsync: runlock of unlocked rwmutex")
	}
	idx := len(m.readers) - 1
	for i, r := range m.readers {
		if r == t {
			idx = i
			break
		}
	}
	m.readers = append(m.readers[:idx], m.readers[idx+1:]...)
	ws := m.waiters
	m.waiters = nil
	w.makeRunnable(ws)
	w.mu.Unlock()
}

func (m *RWMutex) RLocker() sync.Locker { return (*rlocker)(m) }

type rlocker RWMutex

func (r *rlocker) Lock()   { (*RWMutex)(r).RLock() }
func (r *rlocker) Unlock() { (*RWMutex)(r).RUnlock() }

// Cond replaces sync.Cond.
type Cond struct {
	L       sync.Locker
	waiters []*Task
	real    *sync.Cond
}

func NewCond(l sync.Locker) *Cond { return &Cond{L: l, real: sync.NewCond(l)} }

func (c *Cond) lazy() *sync.Cond {
	if c.real == nil {
		c.real = sync.NewCond(c.L)
	}
	return c.real
}

func (c *Cond) Wait() {
	w := W
	if w == nil {
		c.lazy().Wait()
		return
	}
	t := w.self()
	w.mu.Lock()
	c.waiters = append(c.waiters, t)
	w.mu.Unlock()
	c.L.Unlock()
	w.mu.Lock()
	if t.state == stRunning && !containsTask(c.waiters, t) {
		// woken between registration and blocking (Unlock above may run a
		// foreign broadcaster only on another goroutine; with one task running
		// at a time this cannot happen, kept for safety)
		w.mu.Unlock()
	} else {
		w.blockOn(t, c, "cond")
	}
	c.L.Lock()
}

func containsTask(ts []*Task, t *Task) bool {
	for _, x := range ts {
		if x == t {
			return true
		}
	}
	return false
}

func (c *Cond) Broadcast() {
	w := W
	if w == nil {
		c.lazy().Broadcast()
		return
	}
	w.mu.Lock()
	ws := c.waiters
	c.waiters = nil
	w.makeRunnableCond(ws)
	w.mu.Unlock()
}

func (c *Cond) Signal() {
	w := W
	if w == nil {
		c.lazy().Signal()
		return
	}
	w.mu.Lock()
	if len(c.waiters) > 0 {
		t := c.waiters[0]
		c.waiters = c.waiters[1:]
		w.makeRunnableCond([]*Task{t})
	}
	w.mu.Unlock()
}

// makeRunnableCond wakes cond waiters; a waiter that registered but has not
// blocked yet (state running) simply finds itself removed from the wait list.
func (w *World) makeRunnableCond(ts []*Task) {
	w.makeRunnable(ts)
}

// Map replaces sync.Map with an insertion-ordered map (deterministic Range).
type Map struct {
	mu   sync.Mutex
	keys []any
	m    map[any]any
}

func (m *Map) Load(k any) (any, bool) {
	m.mu.Lock()
	defer m.mu.Unlock()
	v, ok := m.m[k]
	return v, ok
}

func (m *Map) Store(k, v any) {
	m.mu.Lock()
	defer m.mu.Unlock()
	m.store(k, v)
}

func (m *Map) store(k, v any) {
	if m.m == nil {
		m.m = map[any]any{}
	}
	if _, ok := m.m[k]; !ok {
		m.keys = append(m.keys, k)
	}
	m.m[k] = v
}

func (m *Map) LoadOrStore(k, v any) (any, bool) {
	m.mu.Lock()
	defer m.mu.Unlock()
	if old, ok := m.m[k]; ok {
		return old, true
	}
	m.store(k, v)
	return v, false
}

func (m *Map) LoadAndDelete(k any) (any, bool) {
	m.mu.Lock()
	defer m.mu.Unlock()
	v, ok := m.m[k]
	if ok {
		m.del(k)
	}
	return v, ok
}

func (m *Map) Swap(k, v any) (any, bool) {
	m.mu.Lock()
	defer m.mu.Unlock()
	old, ok := m.m[k]
	m.store(k, v)
	return old, ok
}

func (m *Map) CompareAndSwap(k, old, new any) bool {
	m.mu.Lock()
	defer m.mu.Unlock()
	if cur, ok := m.m[k]; ok && cur == old {
		m.m[k] = new
		return true
	}
	return false
}

func (m *Map) CompareAndDelete(k, old any) bool {
	m.mu.Lock()
	defer m.mu.Unlock()
	if cur, ok := m.m[k]; ok && cur == old {
		m.del(k)
		return true
	}
	return false
}

func (m *Map) del(k any) {
	delete(m.m, k)
	for i, kk := range m.keys {
		if kk == k {
			m.keys = append(m.keys[:i], m.keys[i+1:]...)
			break
		}
	}
}

func (m *Map) Delete(k any) {
	m.mu.Lock()
	defer m.mu.Unlock()
	if _, ok := m.m[k]; ok {
		m.del(k)
	}
}

func (m *Map) Clear() {
	m.mu.Lock()
	defer m.mu.Unlock()
	m.m = nil
	m.keys = nil
}

func (m *Map) Range(f func(k, v any) bool) {
	m.mu.Lock()
	ks := append([]any(nil), m.keys...)
	m.mu.Unlock()
	for _, k := range ks {
		v, ok := m.Load(k)
		if !ok {
			continue
		}
		if !f(k, v) {
			return
		}
	}
}

// SortedKeys returns the keys of m in a deterministic order (instrumented
// `range` over maps iterates over it).
func SortedKeys[M ~map[K]V, K comparable, V any](m M) []K {
	ks := make([]K, 0, len(m))
	for k := range m {
		ks = append(ks, k)
	}
	if len(ks) < 2 {
		return ks
	}
	switch any(ks[0]).(type) {
	case uint32:
		slices.SortFunc(ks, func(a, b K) int { return cmp.Compare(any(a).(uint32), any(b).(uint32)) })
	case int:
		slices.SortFunc(ks, func(a, b K) int { return cmp.Compare(any(a).(int), any(b).(int)) })
	case string:
		slices.SortFunc(ks, func(a, b K) int { return cmp.Compare(any(a).(string), any(b).(string)) })
	case [16]byte:
		slices.SortFunc(ks, func(a, b K) int {
			x, y := any(a).([16]byte), any(b).([16]byte)
			return cmp.Compare(string(x[:]), string(y[:]))
		})
	case [32]byte:
		slices.SortFunc(ks, func(a, b K) int {
			x, y := any(a).([32]byte), any(b).([32]byte)
			return cmp.Compare(string(x[:]), string(y[:]))
		})
	default:
		slices.SortFunc(ks, func(a, b K) int { return cmp.Compare(fmt.Sprintf("%v", a), fmt.Sprintf("%v", b)) })
	}
	return ks
}
