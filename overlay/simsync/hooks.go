package simsync

import (
	"fmt"
	"net"
)

// Process-level seams of command packages that run inside the simulation
// (tools/instrument: Programs). The harness sets the hooks before it calls the
// program's Main().

// Dialer is what the programs hand to client.MakeSession (common.Dialer).
type Dialer interface {
	Dial(network, address string) (net.Conn, error)
}

var (
	// HookListen stands in for net.Listen.
	HookListen func(network, address string) (net.Listener, error)
	// HookListenUDP stands in for net.ListenUDP.
	HookListenUDP func(network string, laddr *net.UDPAddr) (net.PacketConn, error)
	// HookDialer receives the *net.Dialer the program configured and returns
	// the dialer to use in its place.
	HookDialer func(d *net.Dialer) Dialer
	// HookServe stands in for server.Serve in ck-server's main(): the harness
	// receives the listener and the *server.State that main() initialised.
	HookServe func(l net.Listener, state any)
)

// FatalExit is the panic value by which log.Fatal* of a program unwinds its
// task (the real call would end the process).
type FatalExit struct{ Msg string }

func (f FatalExit) Error() string { return "program exited: " + f.Msg }

func Fatal(a ...any) { panic(FatalExit{fmt.Sprint(a...)}) }

func Fatalf(format string, a ...any) { panic(FatalExit{fmt.Sprintf(format, a...)}) }
