// Package simsync is the cooperative scheduler of the deterministic simulator
// (DESIGN.md 2.3/2.4). It is injected into the Cloak module through the build
// overlay; the instrumented Cloak packages call Yield/Go/AfterFuncAt and use
// its Mutex/RWMutex/Cond/Map instead of package sync. With no World attached
// every primitive degrades to the real one.
package simsync

import (
	"bytes"
	"fmt"
	"io"
	"runtime"
	"sort"
	"strconv"
	"sync"
	"testing/synctest"
	"time"
)

// W is the world the current process is simulating (nil: pass-through).
var W *World

const (
	stRunning  = iota // released by the scheduler (or blocked in a real channel/sleep)
	stRunnable        // parked, may be released
	stBlocked         // waits for a sim primitive
	stExited
)

type Task struct {
	ID     int
	Name   string
	Owned  bool
	gid    uint64
	wake   chan struct{}
	Site   string // last yield site
	Yields int    // number of times parked at a yield
	state  int
	// what the task waits for while stBlocked
	waitLock any
	waitDesc string
	key      string
	// policy scratch
	prio      int
	seen      bool
	holdUntil int
	atomic    int
	hotSeen   int
}

func (t *Task) String() string { return t.Name + "@" + t.Site }

// Option is one thing the scheduler may do next.
type Option struct {
	Key    string    // stable identity, e.g. "T:stream.go:99#2", "N:c3>s", "F:reset:c2", "A"
	Class  byte      // 'T' task, 'N' network delivery, 'F' fault, 'A' advance time
	Task   *Task     // for 'T'
	Apply  func(int) // for others; receives the drawn parameter
	NParam int       // >0: a parameter in [0,NParam) is drawn with the option
	Weight float64   // relative weight inside its class (0 = 1)
	// AnchorN, with Key, identifies this option when it is the default: a
	// task's own yield count, a pipe's segment number, the advance count
	AnchorN int
}

// AnchorStr identifies the option as a default (see AnchorN).
func (o *Option) AnchorStr() string { return o.Key + "/" + strconv.Itoa(o.AnchorN) }

// Decision is a non-default scheduler decision.
type Decision struct {
	Step   int    `json:"s"`
	Anchor string `json:"a"` // what would have happened by default
	Key    string `json:"k"` // what was done instead
	Param  int    `json:"p,omitempty"`
}

type End int

const (
	EndDone End = iota
	EndQuiescent
	EndStepCap
	EndDeadlock
	EndPanic
	EndViolation
	EndDiverged
	EndTimeCap
)

func (e End) String() string {
	return [...]string{"done", "quiescent", "stepcap", "deadlock", "panic", "violation", "diverged", "timecap"}[e]
}

type Config struct {
	MaxSteps int
	VirtCap  time.Duration
	Decider  Decider
}

type World struct {
	rootGid  uint64
	mu       sync.Mutex
	cfg      Config
	byGid    map[uint64]*Task
	all      []*Task
	runnable []*Task
	cur      *Task
	notify   chan struct{}
	far      *time.Timer
	farFired bool
	stopping bool
	nextID   int
	exited   int
	siteSeq  map[string]int
	sources  []func() []Option
	optBuf   []Option
	// number of tasks blocked on a sim lock (wait-for graph is only searched when >= 2)
	lockBlocked int

	Steps    int
	Switches int
	Advances int
	Hash     uint64 // hash of every decision taken (determinism witness)
	ILHash   uint64 // hash of context switches and deliveries (interleaving signature)
	Trace    []Decision
	Panics   []string
	Deadlock string
	// DeadlockSites: the wait sites of the tasks forming the cycle (sorted)
	DeadlockSites []string
	Diverged      string
	Violation     string
	Start         time.Time
	ClassN        [128]int // decisions per class (indexed by class byte)
	NonDef        int
	SitePairs     map[string]struct{}
	lastSite      string

	// Invariant is evaluated on the scheduler goroutine at every step, with
	// all tasks parked. It must not block and must not call instrumented code.
	Invariant func() string
	// TraceOut, if set, receives one line per scheduler step (debugging aid)
	TraceOut io.Writer
	// EveryStep hooks (cheap probes)
	OnStep func()
	// OnIdle is evaluated at every quiescent moment: no task runnable and no
	// network action enabled (only the passage of time can change anything).
	OnIdle func() string
}

// reinitHooks re-run the initialisers of package-level variables of the
// instrumented packages (registered by generated init functions, in package
// initialisation order).
var reinitHooks []func()

// RegisterReinit is called from generated code.
func RegisterReinit(f func()) { reinitHooks = append(reinitHooks, f) }

func NewWorld(cfg Config) *World {
	// every run starts from a fresh process image, created inside the bubble
	for _, f := range reinitHooks {
		f()
	}
	if cfg.MaxSteps == 0 {
		cfg.MaxSteps = 200000
	}
	if cfg.VirtCap == 0 {
		cfg.VirtCap = 6 * time.Hour
	}
	w := &World{cfg: cfg, byGid: map[uint64]*Task{}, notify: make(chan struct{}, 1), siteSeq: map[string]int{},
		SitePairs: map[string]struct{}{}}
	w.Start = time.Now() // bubble clock: worlds are created inside the bubble
	w.rootGid = goid()
	return w
}

func (w *World) newTask(name string, owned bool) *Task { // w.mu held
	t := &Task{ID: w.nextID, Name: name, Owned: owned, wake: make(chan struct{})}
	t.key = "T:" + name
	w.nextID++
	w.all = append(w.all, t)
	return t
}

func (w *World) taskName(site string) string { // w.mu held
	k := w.siteSeq[site]
	w.siteSeq[site] = k + 1
	return site + "#" + strconv.Itoa(k)
}

// self returns the task of the calling goroutine, registering a foreign task
// for goroutines not started through Go/AfterFuncAt.
func (w *World) self() *Task {
	g := goid()
	w.mu.Lock()
	t := w.byGid[g]
	if t == nil {
		// the bubble's root goroutine (it runs the scheduler loop and the
		// scenario's set-up code) must never park: foreign, not owned. Any other
		// unknown goroutine was started by uninstrumented library code on behalf
		// of the system (net/http's per-connection goroutine in the WebSocket
		// handshake): it is adopted as an owned task at its first contact, so that
		// it runs only when the scheduler chooses it instead of racing the task
		// that started it.
		if g == w.rootGid {
			t = w.newTask(w.taskName("foreign"), false)
		} else {
			t = w.newTask(w.taskName("adopted"), true)
		}
		t.gid = g
		w.byGid[g] = t
	}
	w.mu.Unlock()
	return t
}

func (w *World) ping() {
	select {
	case w.notify <- struct{}{}:
	default:
	}
}

func (w *World) awaitWake(t *Task) {
	<-t.wake
	if w.stopping {
		runtime.Goexit()
	}
}

// park: the task is runnable and waits to be chosen.
func (w *World) park(t *Task, site string) {
	w.mu.Lock()
	t.Site = site
	t.Yields++
	t.state = stRunnable
	w.addRunnable(t)
	w.mu.Unlock()
	w.ping()
	w.awaitWake(t)
}

// blockOn: w.mu must be held; the task waits for a sim primitive. Returns with
// w.mu released, after the task has been made runnable and chosen again.
func (w *World) blockOn(t *Task, lock any, desc string) {
	t.state = stBlocked
	t.waitLock = lock
	t.waitDesc = desc
	if _, isLock := lock.(lockOwners); isLock {
		w.lockBlocked++
	}
	w.mu.Unlock()
	w.ping()
	w.awaitWake(t)
}

func (w *World) makeRunnable(ts []*Task) { // w.mu held
	for _, t := range ts {
		if t.state != stBlocked {
			continue
		}
		t.state = stRunnable
		if _, isLock := t.waitLock.(lockOwners); isLock {
			w.lockBlocked--
		}
		t.waitLock = nil
		w.addRunnable(t)
	}
	if len(ts) > 0 {
		w.ping()
	}
}

// Yield is a scheduling point; only owned tasks park.
func Yield(site string) {
	w := W
	if w == nil {
		return
	}
	t := w.self()
	if !t.Owned || t.atomic > 0 {
		return
	}
	w.park(t, site)
}

// AtomicEnter / AtomicLeave bracket a database transaction callback (inserted
// by the instrumenter into function literals passed to Update/View/Batch):
// bbolt holds real locks around the callback, so the task must not be
// descheduled inside it - which is also what the transaction promises
// (writers are serialised, readers see a snapshot).
func AtomicEnter() {
	if w := W; w != nil {
		w.self().atomic++
	}
}

func AtomicLeave() {
	if w := W; w != nil {
		w.self().atomic--
	}
}

func (w *World) runTask(t *Task, site string, fn func()) {
	t.gid = goid()
	w.mu.Lock()
	w.byGid[t.gid] = t
	w.mu.Unlock()
	defer func() {
		if r := recover(); r != nil {
			buf := make([]byte, 8192)
			n := runtime.Stack(buf, false)
			w.mu.Lock()
			w.Panics = append(w.Panics, fmt.Sprintf("task %s: %v\n%s", t.Name, r, buf[:n]))
			w.mu.Unlock()
		}
		w.mu.Lock()
		t.state = stExited
		delete(w.byGid, t.gid)
		w.exited++
		if w.exited > 64 && w.exited*2 > len(w.all) {
			live := w.all[:0]
			for _, x := range w.all {
				if x.state != stExited {
					live = append(live, x)
				}
			}
			w.all = live
			w.exited = 0
		}
		w.mu.Unlock()
		w.ping()
	}()
	w.park(t, site)
	fn()
}

// Go starts fn as an owned task named after site.
func Go(site string, fn func()) {
	w := W
	if w == nil {
		go fn()
		return
	}
	w.mu.Lock()
	t := w.newTask(w.taskName(site), true)
	w.mu.Unlock()
	go w.runTask(t, site, fn)
}

// AfterFuncAt is time.AfterFunc whose callback runs as an owned task.
func AfterFuncAt(site string, d time.Duration, f func()) *time.Timer {
	w := W
	if w == nil {
		return time.AfterFunc(d, f)
	}
	// The task (id, name) is reserved now, by the arming task, which runs under the
	// scheduler: when several timers fire at the same virtual instant their
	// callbacks start outside the scheduler's control, and ids or names handed
	// out in arrival order would not be reproducible.
	w.mu.Lock()
	t := &Task{ID: w.nextID, Name: w.taskName("timer:" + site), Owned: true, wake: make(chan struct{}), state: stExited}
	t.key = "T:" + t.Name
	w.nextID++
	w.mu.Unlock()
	return time.AfterFunc(d, func() {
		if w.stopping {
			return
		}
		w.mu.Lock()
		t.state = stRunning
		w.all = append(w.all, t)
		w.mu.Unlock()
		w.runTask(t, "timer:"+site, f)
	})
}

// AddSource registers a provider of non-task options (network, faults).
func (w *World) AddSource(f func() []Option) { w.sources = append(w.sources, f) }

// Now is the virtual time elapsed since the world started.
func (w *World) Elapsed() time.Duration { return time.Since(w.Start) }

func hashStr(h uint64, parts ...string) uint64 {
	const prime = 1099511628211
	h ^= 14695981039346656037
	for _, p := range parts {
		for i := 0; i < len(p); i++ {
			h ^= uint64(p[i])
			h *= prime
		}
		h *= prime
	}
	return h
}

var stallDurations = []time.Duration{time.Millisecond, 50 * time.Millisecond, time.Second, 10 * time.Second, 61 * time.Second}

// options lists what may happen next. Index 0 is the benign default: keep
// running the current task; else the lowest-id runnable task; else the first
// source option (sources list oldest first); else advance time.
func (w *World) options() []Option { // w.mu held
	opts := w.optBuf[:0]
	if w.cur != nil && w.cur.state == stRunnable {
		opts = append(opts, Option{Key: w.cur.key, Class: 'T', Task: w.cur, AnchorN: w.cur.Yields})
	}
	for _, t := range w.runnable {
		if t != w.cur && t.state == stRunnable {
			opts = append(opts, Option{Key: t.key, Class: 'T', Task: t, AnchorN: t.Yields})
		}
	}
	w.mu.Unlock()
	for _, s := range w.sources {
		opts = append(opts, s()...)
	}
	w.mu.Lock()
	if !w.farFired {
		a := Option{Key: "A", Class: 'A', AnchorN: w.Advances}
		if len(opts) > 0 {
			a.NParam = len(stallDurations) // choosing it now is a stall of a drawn length
		}
		opts = append(opts, a)
	}
	w.optBuf = opts
	return opts
}

// addRunnable keeps w.runnable sorted by task id.
func (w *World) addRunnable(t *Task) { // w.mu held
	i := len(w.runnable)
	w.runnable = append(w.runnable, t)
	for i > 0 && w.runnable[i-1].ID > t.ID {
		w.runnable[i] = w.runnable[i-1]
		i--
	}
	w.runnable[i] = t
}

// findCycle looks for a cycle in the wait-for graph over sim locks.
func (w *World) findCycle() string { // w.mu held
	if w.lockBlocked < 2 {
		return ""
	}
	var blocked []*Task
	for _, t := range w.all {
		if t.state == stBlocked && t.waitLock != nil {
			if _, isLock := t.waitLock.(lockOwners); isLock {
				blocked = append(blocked, t)
			}
		}
	}
	if len(blocked) < 2 {
		return ""
	}
	for _, start := range blocked {
		path := []*Task{start}
		seen := map[*Task]bool{start: true}
		var dfs func(t *Task) []*Task
		dfs = func(t *Task) []*Task {
			lo, ok := t.waitLock.(lockOwners)
			if !ok || t.state != stBlocked {
				return nil
			}
			for _, o := range lo.owners() {
				if o == start {
					return append([]*Task(nil), path...)
				}
				if o == nil || seen[o] || o.state != stBlocked {
					continue
				}
				seen[o] = true
				path = append(path, o)
				if r := dfs(o); r != nil {
					return r
				}
				path = path[:len(path)-1]
			}
			return nil
		}
		if cyc := dfs(start); cyc != nil {
			// canonical order: start from the smallest acquisition site
			var parts []string
			w.DeadlockSites = nil
			for _, t := range cyc {
				parts = append(parts, fmt.Sprintf("%s waits at %s for %s", t.Name, t.Site, t.waitDesc))
				w.DeadlockSites = append(w.DeadlockSites, t.Site)
			}
			sort.Strings(w.DeadlockSites)
			return fmt.Sprintf("%d-cycle: %v", len(cyc), parts)
		}
	}
	return ""
}

// DeadlockSites returns the sorted wait sites of the tasks in lock wait (used
// for known-finding signatures).
func (w *World) LockWaitSites() []string {
	w.mu.Lock()
	defer w.mu.Unlock()
	var s []string
	for _, t := range w.all {
		if t.state == stBlocked && t.waitLock != nil {
			if _, isLock := t.waitLock.(lockOwners); isLock {
				s = append(s, t.Site)
			}
		}
	}
	sort.Strings(s)
	return s
}

// Run drives the world until done() holds (checked at every quiescent step)
// or something ends the run. Must be called from the bubble's root goroutine.
func (w *World) Run(done func() bool) End {
	if w.far == nil {
		w.Start = time.Now()
		w.far = time.NewTimer(w.cfg.VirtCap)
	}
	for {
		synctest.Wait()
		w.mu.Lock()
		if len(w.Panics) > 0 {
			w.mu.Unlock()
			return EndPanic
		}
		w.mu.Unlock()
		if w.Invariant != nil {
			if v := w.Invariant(); v != "" {
				w.Violation = v
				return EndViolation
			}
		}
		if done != nil && done() {
			return EndDone
		}
		if w.Steps >= w.cfg.MaxSteps {
			return EndStepCap
		}
		w.mu.Lock()
		if d := w.findCycle(); d != "" {
			w.Deadlock = d
			w.mu.Unlock()
			return EndDeadlock
		}
		opts := w.options()
		if len(opts) == 0 {
			w.mu.Unlock()
			return EndQuiescent
		}
		if len(opts) == 1 && opts[0].Class == 'A' && w.OnIdle != nil {
			// true quiescence: every task is blocked, nothing is in flight
			w.mu.Unlock()
			if v := w.OnIdle(); v != "" {
				w.Violation = v
				return EndViolation
			}
			w.mu.Lock()
			opts = w.options() // the hook may have enabled something (scripted delivery)
		}
		idx, param := 0, 0
		if len(opts) > 1 || opts[0].NParam > 0 {
			idx, param = w.cfg.Decider.Pick(w, opts)
			if idx < 0 {
				w.mu.Unlock()
				return EndDiverged
			}
		}
		o := opts[idx]
		if idx != 0 || param != 0 {
			w.Trace = append(w.Trace, Decision{Step: w.Steps, Anchor: opts[0].AnchorStr(), Key: o.Key, Param: param})
			w.NonDef++
		}
		if w.TraceOut != nil {
			site := ""
			if o.Task != nil {
				site = o.Task.Site
			}
			fmt.Fprintf(w.TraceOut, "step %d t=%v %s %s (of %d options)\n", w.Steps, time.Since(w.Start), o.Key, site, len(opts))
		}
		w.Steps++
		w.ClassN[o.Class]++
		switch o.Class {
		case 'T':
			t := o.Task
			w.Hash = hashStr(w.Hash, t.key, t.Site)
			if t != w.cur {
				w.Switches++
				pair := w.lastSite + ">" + t.Site
				w.SitePairs[pair] = struct{}{}
				w.ILHash = hashStr(w.ILHash, pair)
			}
			w.lastSite = t.Site
			w.cur = t
			t.state = stRunning
			for i, r := range w.runnable {
				if r == t {
					w.runnable = append(w.runnable[:i], w.runnable[i+1:]...)
					break
				}
			}
			w.mu.Unlock()
			t.wake <- struct{}{}
		case 'A':
			w.Hash = hashStr(w.Hash, "A")
			w.Advances++
			w.mu.Unlock()
			select {
			case <-w.notify:
			default:
			}
			// a stall (something else was enabled) lasts at most a drawn duration:
			// time jumps to the next timer of the system or to the end of the stall,
			// whichever comes first
			var stallC <-chan time.Time
			var st *time.Timer
			if len(opts) > 1 {
				st = time.NewTimer(stallDurations[param%len(stallDurations)])
				stallC = st.C
				w.Hash = hashStr(w.Hash, strconv.Itoa(param))
			}
			select {
			case <-w.notify:
				if st != nil {
					st.Stop()
				}
			case <-stallC:
			case <-w.far.C:
				w.farFired = true
				if len(opts) > 1 {
					// time was let pass by choice (stall) while something was still
					// enabled: the virtual-time cap, not quiescence
					return EndTimeCap
				}
				return EndQuiescent
			}
		default:
			w.Hash = hashStr(w.Hash, o.Key, strconv.Itoa(param))
			w.ILHash = hashStr(w.ILHash, o.Key, strconv.Itoa(param))
			w.mu.Unlock()
			o.Apply(param)
		}
		if w.OnStep != nil {
			w.OnStep()
		}
	}
}

// Stop ends the world: every parked or blocked task exits at its wake-up.
func (w *World) Stop() {
	w.stopping = true
	if w.far != nil {
		w.far.Stop()
	}
	for i := 0; i < 10000; i++ {
		synctest.Wait()
		w.mu.Lock()
		var ws []*Task
		for _, t := range w.all {
			if t.state == stRunnable || t.state == stBlocked {
				ws = append(ws, t)
				t.state = stRunning
			}
		}
		w.runnable = nil
		w.mu.Unlock()
		if len(ws) == 0 {
			return
		}
		for _, t := range ws {
			t.wake <- struct{}{}
		}
	}
}

// Stopping reports whether the world is being torn down.
func (w *World) Stopping() bool { return w.stopping }

// Tasks returns a snapshot description of all live tasks (diagnostics).
func (w *World) DumpTasks() string {
	w.mu.Lock()
	defer w.mu.Unlock()
	var b bytes.Buffer
	for _, t := range w.all {
		if t.state == stExited {
			continue
		}
		st := [...]string{"running/chan-blocked", "runnable", "blocked", "exited"}[t.state]
		fmt.Fprintf(&b, "  %-40s %-20s site=%s wait=%s\n", t.Name, st, t.Site, t.waitDesc)
	}
	return b.String()
}

// BlockedOwned lists owned tasks that are blocked on sim primitives or parked
// outside the scheduler's reach (real channel, sleep), by name prefix.
func (w *World) LiveTasks(prefix string) []string {
	w.mu.Lock()
	defer w.mu.Unlock()
	var out []string
	for _, t := range w.all {
		if t.state != stExited && len(t.Name) >= len(prefix) && t.Name[:len(prefix)] == prefix {
			out = append(out, t.String())
		}
	}
	return out
}

// ---- harness-level blocking ----

// WaitQ is a queue of tasks waiting for a harness-defined condition (used by
// simnet). The zero value is ready to use.
type WaitQ struct {
	ts   []*Task
	Desc string
}

// Wait blocks the calling task until Wake. mu is released while waiting, as
// with sync.Cond, and re-acquired before returning.
func (q *WaitQ) Wait(mu *sync.Mutex) {
	w := W
	t := w.self()
	w.mu.Lock()
	q.ts = append(q.ts, t)
	mu.Unlock()
	t.state = stBlocked
	t.waitLock = q
	t.waitDesc = q.Desc
	w.mu.Unlock()
	w.ping()
	<-t.wake
	mu.Lock() // also when stopping: the caller's deferred Unlock must find it locked
	if w.stopping {
		runtime.Goexit()
	}
}

// Wake makes every waiter runnable.
func (q *WaitQ) Wake() {
	w := W
	if w == nil {
		return
	}
	w.mu.Lock()
	ts := q.ts
	q.ts = nil
	w.makeRunnable(ts)
	w.mu.Unlock()
}

func (q *WaitQ) Len() int { return len(q.ts) }

// Ping wakes the scheduler if it is letting time pass (used by timers that
// only change what is enabled, e.g. the end of a network stall).
func (w *World) Ping() { w.ping() }
