package simsync

import (
	"fmt"
	"hash/fnv"
	"math/rand/v2"
)

// Decider picks one of the options (index 0 is the default). It returns the
// index and the drawn parameter; idx<0 signals replay divergence.
type Decider interface {
	Pick(w *World, opts []Option) (idx int, param int)
}

// PolicyConfig describes a scheduling policy; every random policy is a
// function of these parameters and one PRNG.
type PolicyConfig struct {
	Kind string `json:"kind"` // "rtb" run-to-block, "eps", "pct", "hot", "park", "pre1"
	// probability of preempting the running task at a yield
	Eps float64 `json:"eps,omitempty"`
	// probability of performing a network delivery although a task is runnable
	NetEarly float64 `json:"net_early,omitempty"`
	// network order once no task is runnable: "fifo" or "random" (weighted)
	NetOrder string `json:"net_order,omitempty"`
	// probability, per decision, of delivering a partial segment when the
	// source offers it (NParam>0 options)
	Partial float64 `json:"partial,omitempty"`
	// probability of choosing a fault option when one is offered
	Fault float64 `json:"fault,omitempty"`
	// probability of letting time pass although something else is enabled
	Stall float64 `json:"stall,omitempty"`
	// pct: number of priority change points and assumed run length
	Depth int `json:"depth,omitempty"`
	Len   int `json:"len,omitempty"`
	// hot: percentage of yield sites that are hot, max hold in decisions
	HotPct  int `json:"hot_pct,omitempty"`
	HotHold int `json:"hot_hold,omitempty"`
	// pre1: one long preemption per task: a task (with PreSys: only a task of
	// the system under test, not a harness task) reaching its PreAt-th yield is
	// set aside for HotHold decisions while the others run
	PreAt  int  `json:"pre_at,omitempty"`
	PreSys bool `json:"pre_sys,omitempty"`
}

type randomPolicy struct {
	cfg     PolicyConfig
	rng     *rand.Rand
	salt    uint64
	changes map[int]bool
	prioSeq int
	netPrio map[string]int
}

func NewPolicy(cfg PolicyConfig, seed, run uint64) Decider {
	p := &randomPolicy{cfg: cfg, rng: rand.New(rand.NewPCG(seed, run*2+1)), salt: seed*1000003 + run, netPrio: map[string]int{}}
	if cfg.Kind == "pct" {
		p.changes = map[int]bool{}
		n := cfg.Len
		if n <= 0 {
			n = 5000
		}
		for i := 0; i < cfg.Depth; i++ {
			p.changes[p.rng.IntN(n)] = true
		}
	}
	return p
}

func (p *randomPolicy) hot(site string) bool {
	h := fnv.New64a()
	fmt.Fprintf(h, "%d|%s", p.salt, site)
	return int(h.Sum64()%100) < p.cfg.HotPct
}

func pickWeighted(rng *rand.Rand, opts []Option, idxs []int) int {
	total := 0.0
	for _, i := range idxs {
		wt := opts[i].Weight
		if wt == 0 {
			wt = 1
		}
		total += wt
	}
	x := rng.Float64() * total
	for _, i := range idxs {
		wt := opts[i].Weight
		if wt == 0 {
			wt = 1
		}
		if x < wt {
			return i
		}
		x -= wt
	}
	return idxs[len(idxs)-1]
}

func (p *randomPolicy) param(o Option) int {
	if o.NParam <= 0 {
		return 0
	}
	if o.Class == 'N' && p.rng.Float64() >= p.cfg.Partial {
		return 0 // deliver whole
	}
	return p.rng.IntN(o.NParam)
}

func (p *randomPolicy) Pick(w *World, opts []Option) (int, int) {
	var tasks, nets, faults []int
	adv := -1
	for i, o := range opts {
		switch o.Class {
		case 'T':
			tasks = append(tasks, i)
		case 'N':
			nets = append(nets, i)
		case 'F':
			faults = append(faults, i)
		case 'A':
			adv = i
		}
	}
	rng := p.rng
	c := p.cfg
	// rare cross-class choices first
	if len(faults) > 0 && c.Fault > 0 && rng.Float64() < c.Fault {
		i := faults[rng.IntN(len(faults))]
		return i, p.param(opts[i])
	}
	if adv >= 0 && adv != 0 && c.Stall > 0 && rng.Float64() < c.Stall {
		return adv, rng.IntN(max(opts[adv].NParam, 1))
	}
	if len(tasks) > 0 {
		if len(nets) > 0 && c.NetEarly > 0 && rng.Float64() < c.NetEarly {
			i := pickWeighted(rng, opts, nets)
			return i, p.param(opts[i])
		}
		switch c.Kind {
		case "eps":
			if len(tasks) > 1 && rng.Float64() < c.Eps {
				return tasks[rng.IntN(len(tasks))], 0
			}
		case "hot":
			// delay-bounded: a task reaching a hot site may be set aside for a
			// number of decisions while the others run
			t := opts[tasks[0]].Task
			if len(tasks) > 1 && t.hotSeen != t.Yields {
				t.hotSeen = t.Yields
				if p.hot(t.Site) && rng.Float64() < 0.5 {
					hold := c.HotHold
					if hold <= 0 {
						hold = 20
					}
					t.holdUntil = w.Steps + 1 + rng.IntN(hold)
				}
			}
			var free []int
			for _, i := range tasks {
				if opts[i].Task.holdUntil <= w.Steps {
					free = append(free, i)
				}
			}
			if len(free) > 0 && free[0] != tasks[0] {
				return free[rng.IntN(len(free))], 0
			}
			if len(tasks) > 1 && rng.Float64() < c.Eps {
				return tasks[rng.IntN(len(tasks))], 0
			}
		case "pre1":
			t := opts[tasks[0]].Task
			if len(tasks) > 1 && t.Yields == c.PreAt && t.hotSeen != t.Yields+1 && !(c.PreSys && len(t.Name) > 1 && t.Name[:2] == "h:") {
				t.hotSeen = t.Yields + 1
				hold := c.HotHold
				if hold <= 0 {
					hold = 1000
				}
				t.holdUntil = w.Steps + 1 + hold
			}
			for _, i := range tasks {
				if opts[i].Task.holdUntil <= w.Steps {
					if i != tasks[0] {
						return i, 0
					}
					break
				}
			}
		case "park":
			// delay-bounded with long delays: a task reaching a hot site may be
			// set aside for hundreds or thousands of decisions while the others
			// run to their next blocking point one after the other (a preempted
			// or descheduled thread, as opposed to hot's brief reorderings)
			t := opts[tasks[0]].Task
			if len(tasks) > 1 && t.hotSeen != t.Yields {
				t.hotSeen = t.Yields
				if p.hot(t.Site) && rng.Float64() < 0.5 {
					hold := c.HotHold
					if hold <= 0 {
						hold = 1000
					}
					t.holdUntil = w.Steps + 1 + rng.IntN(hold)
				}
			}
			for _, i := range tasks {
				if opts[i].Task.holdUntil <= w.Steps {
					if i != tasks[0] {
						return i, 0
					}
					break
				}
			}
			if len(tasks) > 1 && rng.Float64() < c.Eps {
				return tasks[rng.IntN(len(tasks))], 0
			}
		case "pct":
			best, bi := -1<<31, -1
			for _, i := range tasks {
				t := opts[i].Task
				if !t.seen {
					t.seen = true
					t.prio = 1000 + rng.IntN(1000000)
				}
				if t.prio > best {
					best, bi = t.prio, i
				}
			}
			if p.changes[w.Steps] {
				p.prioSeq++
				opts[bi].Task.prio = -p.prioSeq
			}
			return bi, 0
		}
		return tasks[0], 0
	}
	if len(nets) > 0 {
		if c.NetOrder == "random" && len(nets) > 1 {
			i := pickWeighted(rng, opts, nets)
			return i, p.param(opts[i])
		}
		return nets[0], p.param(opts[nets[0]])
	}
	return 0, p.param(opts[0])
}

// replayDecider re-executes a recorded list of non-default decisions. In
// strict mode (replay files) a decision that cannot be honoured is a
// divergence; in tolerant mode (minimisation candidates) it is skipped.
type replayDecider struct {
	byAnchor map[string][]Decision
	strict   bool
	Used     int
	Missed   int
}

func NewReplay(trace []Decision, strict bool) *replayDecider {
	r := &replayDecider{byAnchor: map[string][]Decision{}, strict: strict}
	for _, d := range trace {
		r.byAnchor[d.Anchor] = append(r.byAnchor[d.Anchor], d)
	}
	return r
}

func (r *replayDecider) Pick(w *World, opts []Option) (int, int) {
	anchor := opts[0].AnchorStr()
	q := r.byAnchor[anchor]
	if len(q) == 0 {
		return 0, 0
	}
	d := q[0]
	if r.strict && d.Step != w.Steps {
		// same anchor reached at another step: only legal if the recorded one is later
		if d.Step < w.Steps {
			w.Diverged = fmt.Sprintf("step %d: decision recorded for step %d (anchor %s) was not consumed", w.Steps, d.Step, d.Anchor)
			return -1, 0
		}
		return 0, 0
	}
	r.byAnchor[anchor] = q[1:]
	for i, o := range opts {
		if o.Key == d.Key {
			if o.NParam > 0 && d.Param >= o.NParam {
				break
			}
			r.Used++
			return i, d.Param
		}
	}
	r.Missed++
	if r.strict {
		w.Diverged = fmt.Sprintf("step %d: recorded choice %s not among %d options", w.Steps, d.Key, len(opts))
		return -1, 0
	}
	return 0, 0
}

// Remaining reports recorded decisions that were never reached.
func (r *replayDecider) Remaining() int {
	n := 0
	for _, q := range r.byAnchor {
		n += len(q)
	}
	return n
}
