//go:build verif

// Accessors for the /verif simulator (added to the package through the build
// overlay only; never part of the shipped tree). They read fields directly and
// take none of the package's locks: they run on the scheduler goroutine while
// every task is parked.
package multiplex

import "sort"

// VerifStreamTable returns the number of open entries of the stream table and
// the active-stream counter.
func (sesh *Session) VerifStreamTable() (open int, count uint32) {
	for _, s := range sesh.streams {
		if s != nil && s.closed == 0 {
			open++
		}
	}
	return open, sesh.activeStreamCount
}

// VerifStreamIDs lists the ids in the stream table (open ones, and closed
// ones kept as nil markers).
func (sesh *Session) VerifStreamIDs() (open []uint32, dead []uint32) {
	for id, s := range sesh.streams {
		if s != nil && s.closed == 0 {
			open = append(open, id)
		} else {
			dead = append(dead, id)
		}
	}
	sort.Slice(open, func(i, j int) bool { return open[i] < open[j] })
	sort.Slice(dead, func(i, j int) bool { return dead[i] < dead[j] })
	return
}

func (sesh *Session) VerifClosedFlag() bool { return sesh.closed == 1 }

func (sesh *Session) VerifMaxStreamUnitWrite() int { return sesh.maxStreamUnitWrite }

func (sesh *Session) VerifConnsCount() uint32 { return sesh.sb.connsCount }

func (sesh *Session) VerifBroken() bool { return sesh.sb.broken == 1 }

// VerifDigest summarises the logical receive state of a session: stream
// table, next expected sequence numbers, buffered bytes, closed flags.
type VerifStreamState struct {
	ID       uint32
	Closed   bool
	NextSeq  uint64
	Parked   int
	Buffered int
	PipeEnd  bool
}

func (sesh *Session) VerifDigest() (streams []VerifStreamState, dead []uint32, count uint32, closed bool) {
	for id, s := range sesh.streams {
		if s == nil {
			dead = append(dead, id)
			continue
		}
		st := VerifStreamState{ID: id, Closed: s.closed == 1}
		switch rb := s.recvBuf.(type) {
		case *streamBuffer:
			st.NextSeq = rb.nextRecvSeq
			st.Parked = len(rb.sh)
			st.Buffered = rb.buf.buf.Len()
			st.PipeEnd = rb.buf.closed
		case *datagramBufferedPipe:
			st.Parked = len(rb.pLens)
			st.Buffered = rb.buf.Len()
			st.PipeEnd = rb.closed
		}
		streams = append(streams, st)
	}
	sort.Slice(streams, func(i, j int) bool { return streams[i].ID < streams[j].ID })
	sort.Slice(dead, func(i, j int) bool { return dead[i] < dead[j] })
	return streams, dead, sesh.activeStreamCount, sesh.closed == 1
}

func (s *Stream) VerifID() uint32 { return s.id }

// VerifRecv hands one received message to the session exactly as deplex does.
func (sesh *Session) VerifRecv(data []byte) error { return sesh.recvDataFromRemote(data) }

// ---- codec ----

func (o *Obfuscator) VerifObfuscate(f *Frame, buf []byte, payloadOffsetInBuf int) (int, error) {
	return o.obfuscate(f, buf, payloadOffsetInBuf)
}

func (o *Obfuscator) VerifDeobfuscate(f *Frame, in []byte) error { return o.deobfuscate(f, in) }

const VerifFrameHeaderLength = frameHeaderLength
const VerifMaxExtraLen = maxExtraLen

// ---- reassembly buffer ----

type VerifStreamBuffer struct{ sb *streamBuffer }

func VerifNewStreamBuffer(next uint64) *VerifStreamBuffer {
	sb := NewStreamBuffer()
	sb.nextRecvSeq = next
	return &VerifStreamBuffer{sb}
}

func (v *VerifStreamBuffer) Write(f *Frame) (bool, error) { return v.sb.Write(f) }
func (v *VerifStreamBuffer) Read(b []byte) (int, error)   { return v.sb.Read(b) }
func (v *VerifStreamBuffer) Close() error                 { return v.sb.Close() }
func (v *VerifStreamBuffer) Parked() int                  { return len(v.sb.sh) }
func (v *VerifStreamBuffer) Buffered() int                { return v.sb.buf.buf.Len() }
func (v *VerifStreamBuffer) Next() uint64                 { return v.sb.nextRecvSeq }

const (
	VerifClosingNothing = closingNothing
	VerifClosingStream  = closingStream
	VerifClosingSession = closingSession
)
