//go:build verif

// Accessors for the /verif simulator (added through the build overlay only).
package server

import (
	"sort"

	mux "github.com/cbeuw/Cloak/internal/multiplex"
)

// VerifUsers lists the active users and their sessions. It reads the fields
// directly (no locks): it is meant for quiescent moments.
type VerifUser struct {
	UID      [16]byte
	Bypass   bool
	Sessions map[uint32]*mux.Session
	User     *ActiveUser
}

func (panel *userPanel) VerifUsers() []VerifUser {
	var out []VerifUser
	for uid, u := range panel.activeUsers {
		vu := VerifUser{UID: uid, Bypass: u.bypass, Sessions: map[uint32]*mux.Session{}, User: u}
		for id, s := range u.sessions {
			vu.Sessions[id] = s
		}
		out = append(out, vu)
	}
	sort.Slice(out, func(i, j int) bool { return string(out[i].UID[:]) < string(out[j].UID[:]) })
	return out
}

func (u *ActiveUser) VerifNumSessions() int { return len(u.sessions) }
func (u *ActiveUser) VerifUID() [16]byte    { return u.arrUID }
func (u *ActiveUser) VerifValve() mux.Valve { return u.valve }

func (panel *userPanel) VerifUpdateUsageQueue()   { panel.updateUsageQueue() }
func (panel *userPanel) VerifCommitUpdate() error { return panel.commitUpdate() }
func (panel *userPanel) VerifQueueLen() int       { return len(panel.usageUpdateQueue) }

func (sta *State) VerifUsedRandomLen() int { return len(sta.UsedRandom) }

// VerifReadFirstPacket exposes the first-packet reader.
func VerifDispatch(conn interface {
	Close() error
}, sta *State) {
}

const VerifTimestampTolerance = timestampTolerance
const VerifReplayCacheAgeLimit = replayCacheAgeLimit
